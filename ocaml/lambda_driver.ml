(* Model driver for C08.  Input: the harness case line followed by the oracle
   section the harness printed ("O <outputs of each program on the train rows
   then on the query rows>").  Output: the "R ..." section the harness is
   expected to print.  (zutil.ml and `open Lambda_model` are prepended.)
   NB: Lambda_model shadows map/nth/length/fst...: Stdlib functions are used
   qualified. *)
module SL = Stdlib.List
let f64_of_hex h = F64.of_bits (z_of_hex h)
let hex_of_f64 f = hex_of_z (F64.to_bits f)
let float_of_f64 f = Int64.float_of_bits (int64_bits_of_z (F64.to_bits f))
let f64_of_float x = F64.of_bits (z_of_int64_bits (Int64.bits_of_float x))
let lift1 g = fun f -> f64_of_float (g (float_of_f64 f))
let m_atan = lift1 Stdlib.atan
let m_exp = lift1 Stdlib.exp

let parse_out (t : string) : f64 option =
  if t = "v" then None
  else if String.length t > 2 && t.[0] = 'd' then Some (f64_of_hex (String.sub t 2 (String.length t - 2)))
  else if String.length t > 2 && t.[0] = 'i' then
    (* lexical_cast<double>(int) *)
    Some (f64_of_float (float_of_string (String.sub t 2 (String.length t - 2))))
  else failwith ("out token " ^ t)
let show_out = function None -> "v" | Some f -> "d:" ^ hex_of_f64 f
let show_tag (l, c) = string_of_int (int_of_nat l) ^ "/" ^ hex_of_f64 c

type case = {
  kind : string; scheme : string; comp : string; classes : int; xslot : int;
  nprog : int; labels : string array; ntrain : int; nquery : int;
  ops : string list;
  otrain : f64 option array array;   (* program -> train row -> out *)
  oquery : f64 option array array;
  stoks : string list;               (* typed tokens of the real serialize::save text *)
}

let parse (line : string) : case =
  let toks = Array.of_list (split_ws line) in
  let p = ref 0 in
  let next () = let t = toks.(!p) in incr p; t in
  let num () = int_of_string (next ()) in
  let kind = next () in
  let scheme = next () in
  let comp = next () in
  let classes = num () in
  let xslot = num () in
  let nprog = num () in
  for _ = 1 to nprog do ignore (next ()) done;
  let ntrain = num () in
  let labels = Array.make ntrain "" in
  for i = 0 to ntrain - 1 do
    labels.(i) <- next (); ignore (next ()); ignore (next ()); ignore (next ())
  done;
  let nquery = num () in
  for _ = 1 to nquery do ignore (next ()); ignore (next ()); ignore (next ()) done;
  let ops =
    if kind = "H" then begin
      let n = num () in
      SL.init n (fun _ -> next ())
    end else [] in
  if next () <> "O" then failwith "oracle section expected";
  let otrain = Array.make_matrix nprog ntrain None in
  let oquery = Array.make_matrix nprog nquery None in
  for q = 0 to nprog - 1 do
    for i = 0 to ntrain - 1 do otrain.(q).(i) <- parse_out (next ()) done;
    for j = 0 to nquery - 1 do oquery.(q).(j) <- parse_out (next ()) done
  done;
  let stoks =
    if !p < Array.length toks && toks.(!p) = "S" then begin
      incr p;
      let n = num () in
      SL.init n (fun _ -> next ())
    end else [] in
  { kind; scheme; comp; classes; xslot; nprog; labels; ntrain; nquery; ops; otrain; oquery; stoks }

let class_label (s : string) : int = int_of_string (String.sub s 2 (String.length s - 2))

exception Undefined_behaviour

(* the single-program classifier built from program q, as a function out -> tag *)
let classifier (c : case) (q : int) : (f64 option -> nat * f64) =
  let train = SL.init c.ntrain (fun i -> (c.otrain.(q).(i), nat_of_int (class_label c.labels.(i)))) in
  match c.scheme with
  | "dyn" ->
      (match dyn_build m_atan (nat_of_int c.classes) (nat_of_int c.xslot) train with
       | Some d -> (fun o -> match dyn_tag m_atan d o with Some t -> t | None -> raise Undefined_behaviour)
       | None -> raise Undefined_behaviour)
  | "gauss" ->
      (match gauss_build (nat_of_int c.classes) train with
       | Some g -> (fun o -> gauss_tag m_exp g o)
       | None -> raise Undefined_behaviour)
  | "bin" -> binary_tag
  | _ -> failwith "scheme"

(* prediction of a model made of the programs [qs] given each program's output *)
let predictor (c : case) : (int list -> (int -> f64 option) -> string) =
  let cache = Hashtbl.create 7 in
  let cls q = match Hashtbl.find_opt cache q with
    | Some f -> f
    | None -> let f = classifier c q in Hashtbl.add cache q f; f in
  fun qs outs ->
    match c.scheme, c.comp with
    | "reg", "ind" -> show_out (outs (SL.hd qs))
    | "reg", "team" -> show_out (team_eval (SL.map outs qs))
    | _, "ind" -> show_tag ((cls (SL.hd qs)) (outs (SL.hd qs)))
    | _, "wta" ->
        (match wta (SL.map (fun q -> (cls q) (outs q)) qs) with
         | Some t -> show_tag t | None -> "UB")
    | _, "mv" ->
        (match mv (nat_of_int c.classes) (SL.map (fun q -> (cls q) (outs q)) qs) with
         | Some t -> show_tag t | None -> "UB")
    | _ -> failwith "comp"

let tag_label (s : string) : int = int_of_string (SL.hd (String.split_on_char '/' s))
let tag_conf (s : string) : f64 = f64_of_hex (SL.nth (String.split_on_char '/' s) 1)

(* ---- serialisation: typed tokens  s:<word>  n:<int>  f:<hex64>  i:<member> *)
let ids = [("REG_LAMBDA_F", 0); ("TEAM_REG_LAMBDA_F", 1); ("DYN_SLOT_LAMBDA_F", 2); ("GAUSSIAN_LAMBDA_F", 3);
           ("BINARY_LAMBDA_F", 4); ("TEAM_DYN_SLOT_LAMBDA_F", 5); ("TEAM_GAUSSIAN_LAMBDA_F", 6);
           ("TEAM_BINARY_LAMBDA_F", 7)]
let z_of_word (w : string) : z =
  match SL.assoc_opt w ids with
  | Some k -> z_of_int k
  | None ->
      if String.length w > 1 && w.[0] = 'c' then z_of_int (1000 + int_of_string (String.sub w 1 (String.length w - 1)))
      else z_of_int 999
let word_of_z (x : z) : string =
  let k = int_of_z x in
  match SL.find_opt (fun (_, v) -> v = k) ids with
  | Some (w, _) -> w
  | None -> if k >= 1000 then "c" ^ string_of_int (k - 1000) else "?"
let tok_of_string (t : string) : int tok =
  let p = String.sub t 2 (String.length t - 2) in
  match t.[0] with
  | 's' -> TS (z_of_word p)
  | 'n' -> TN (z_of_int (int_of_string p))
  | 'f' -> TF (f64_of_hex p)
  | 'i' -> TI (int_of_string p)
  | _ -> failwith "stok"
let string_of_tok (t : int tok) : string =
  match t with
  | TS x -> "s:" ^ word_of_z x
  | TN n -> "n:" ^ dec_of_z n
  | TF f -> "f:" ^ hex_of_f64 f
  | TI i -> "i:" ^ string_of_int i

(* load the real text with the model's parser, print it again, predict with the loaded model *)
let serial_part (c : case) : string =
  if c.stoks = [] then ""
  else
    let toks = SL.map tok_of_string c.stoks in
    match load_model toks with
    | None -> " sertok NOPARSE"
    | Some (m, rest) ->
        if rest <> [] then " sertok TRAILING"
        else begin
          let again = SL.map string_of_tok (save_model m) in
          let same = (again = c.stoks) in
          let b = Buffer.create 64 in
          Buffer.add_string b (if same then " sertok ok rtm" else " sertok DIFF rtm");
          for j = 0 to c.nquery - 1 do
            let a = spredict m_atan m_exp (fun k -> c.oquery.(k).(j)) m in
            Buffer.add_string b (" " ^ (match a with AValue o -> show_out o | ATag t -> show_tag t | AUndefined -> "UB"))
          done;
          Buffer.contents b
        end

let t_case (c : case) : string =
  let pred = predictor c in
  let qs = SL.init c.nprog (fun q -> q) in
  let b = Buffer.create 256 in
  Buffer.add_string b "R q";
  let qpreds = SL.init c.nquery (fun j -> pred qs (fun q -> c.oquery.(q).(j))) in
  SL.iter (fun s -> Buffer.add_string b (" " ^ s)) qpreds;
  Buffer.add_string b " t";
  let tpreds = SL.init c.ntrain (fun i -> pred qs (fun q -> c.otrain.(q).(i))) in
  SL.iter (fun s -> Buffer.add_string b (" " ^ s)) tpreds;
  Buffer.add_string b " acc ";
  let cls = c.scheme <> "reg" in
  if c.ntrain = 0 then Buffer.add_string b "-"
  else if cls then begin
    let pl = SL.mapi (fun i s -> (nat_of_int (tag_label s), nat_of_int (class_label c.labels.(i)))) tpreds in
    Buffer.add_string b (hex_of_f64 (accuracy_class pl))
  end else begin
    let pl = SL.mapi (fun i s -> (parse_out s, (match parse_out c.labels.(i) with Some x -> x | None -> failwith "label"))) tpreds in
    Buffer.add_string b (hex_of_f64 (accuracy_reg pl))
  end;
  Buffer.add_string b " fit ";
  let has_ev = c.comp <> "mv" && (cls || c.ntrain > 0) in
  if not cls || c.comp = "mv" then Buffer.add_string b "-"
  else if c.scheme = "gauss" then begin
    let pl = SL.mapi (fun i s -> ((nat_of_int (tag_label s), tag_conf s), nat_of_int (class_label c.labels.(i)))) tpreds in
    Buffer.add_string b (hex_of_f64 (gauss_eval (nat_of_int c.classes) pl))
  end else begin
    let pl = SL.mapi (fun i s -> (nat_of_int (tag_label s), nat_of_int (class_label c.labels.(i)))) tpreds in
    Buffer.add_string b (hex_of_f64 (count_eval pl))
  end;
  Buffer.add_string b " l";
  if has_ev then SL.iter (fun s -> Buffer.add_string b (" " ^ s)) qpreds;
  if c.scheme = "dyn" && c.comp = "ind" then begin
    let train = SL.init c.ntrain (fun i -> (c.otrain.(0).(i), nat_of_int (class_label c.labels.(i)))) in
    match dyn_build m_atan (nat_of_int c.classes) (nat_of_int c.xslot) train with
    | None -> raise Undefined_behaviour
    | Some d ->
        Buffer.add_string b (Printf.sprintf " mat %d %d" (int_of_nat d.dm_ns) (int_of_nat d.dm_classes));
        SL.iter (fun r -> SL.iter (fun z -> Buffer.add_string b (" " ^ dec_of_z z)) r) d.dm_matrix;
        Buffer.add_string b " cls";
        SL.iter (fun cl -> Buffer.add_string b (" " ^ string_of_int (int_of_nat cl))) d.dm_slot_class;
        Buffer.add_string b " slots";
        let sl o = match slot m_atan d.dm_ns o with Some s -> string_of_int (int_of_nat s) | None -> raise Undefined_behaviour in
        for j = 0 to c.nquery - 1 do Buffer.add_string b (" " ^ sl c.oquery.(0).(j)) done;
        for i = 0 to c.ntrain - 1 do Buffer.add_string b (" " ^ sl c.otrain.(0).(i)) done
  end;
  if c.scheme = "gauss" && c.comp = "ind" then begin
    let train = SL.init c.ntrain (fun i -> (c.otrain.(0).(i), nat_of_int (class_label c.labels.(i)))) in
    Buffer.add_string b " var";
    match gauss_build (nat_of_int c.classes) train with
    | Some g -> SL.iter (fun mv -> Buffer.add_string b (" " ^ hex_of_f64 (Stdlib.snd mv))) (gauss_stats g)
    | None -> raise Undefined_behaviour
  end;
  Buffer.add_string b (serial_part c);
  Buffer.contents b

let parse_op (s : string) : int list op =
  match String.split_on_char ':' s with
  | ["N"; l] -> MNew (SL.map int_of_string (String.split_on_char ',' l))
  | ["C"; a] -> MCopy (nat_of_int (int_of_string a))
  | ["M"; a] -> MMove (nat_of_int (int_of_string a))
  | ["A"; d; a] -> MAssign (nat_of_int (int_of_string d), nat_of_int (int_of_string a))
  | ["D"; a] -> MDestroy (nat_of_int (int_of_string a))
  | ["P"; a] -> VPush (nat_of_int (int_of_string a))
  | ["E"; k] -> VErase (nat_of_int (int_of_string k))
  | _ -> failwith ("op " ^ s)

let h_case (c : case) : string =
  let pred = predictor c in
  let b = Buffer.create 1024 in
  Buffer.add_string b "R";
  let st = ref (Some init) in
  SL.iter (fun o ->
    (match !st with
     | None -> ()
     | Some s -> st := step Reseat s (parse_op o));
    match !st with
    | None -> Buffer.add_string b " | INVALID-HISTORY"
    | Some s ->
        Buffer.add_string b " |";
        SL.iteri (fun m slot ->
          match slot with
          | None -> ()
          | Some _ ->
              Buffer.add_string b (" " ^ string_of_int m ^ "=");
              (match model_program s (nat_of_int m) with
               | None -> Buffer.add_string b "DANGLING"
               | Some qs ->
                   let ps = SL.init c.nquery (fun j -> pred qs (fun q -> c.oquery.(q).(j))) in
                   Buffer.add_string b (String.concat "," ps)))
          s.st_models) c.ops;
  Buffer.contents b

let () =
  try
    while true do
      let line = input_line stdin in
      (try
        let c = parse line in
        print_endline (if c.kind = "T" then t_case c else h_case c)
      with
      | Undefined_behaviour -> print_endline "UB"
      | Failure m -> print_endline ("BADLINE " ^ m)
      | Invalid_argument m -> print_endline ("BADLINE " ^ m)
      | Not_found -> print_endline "BADLINE notfound")
    done
  with End_of_file -> ()
