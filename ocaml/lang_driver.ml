(* Model driver for C19 (language export).
   input : S <sym>;<sym>;...  G <gene>;<gene>;...
     sym  ::= K:<index in classes_all>:<cat>:<argcats>     shipped class instance
            | D:<hex64>:<cat> | I:<int>:<cat> | Q:<hexbytes>:<cat>     constants
            | N:<hexname>:<cat>:<argcats>:<parametric 0|1>:<terminal 0|1>   base display
     gene ::= <symbol index>:<param hex64|->:<row,row,...>[:<own row>]
   output: c:<hex> cpp:<hex> mql:<hex> py:<hex> P:<y|x|n per format>
           (NONE for a format the model does not define) *)
let split_on c s = String.split_on_char c s
let bytes_of_hex (p : string) : z list =
  if p = "-" then [] else
  List.init (String.length p / 2) (fun i -> z_of_int (int_of_string ("0x" ^ String.sub p (2 * i) 2)))
let hex_of_bytes (l : z list) : string =
  if l = [] then "-" else String.concat "" (List.map (fun c -> Printf.sprintf "%02x" (int_of_z c)) l)
let cats_of (s : string) : nat list =
  if s = "" then [] else List.map (fun w -> nat_of_int (int_of_string w)) (split_on ',' s)

let classes = Array.of_list classes_all
let dummy_strat = Ret (Val VVoid)

let () =
  try
    while true do
      let line = input_line stdin in
      match split_ws line with
      | "S" :: sd :: "G" :: gd :: _ ->
          let descs = Array.of_list (split_on ';' sd) in
          let nsym = Array.length descs in
          let disp = Array.make nsym None in
          let syms = Array.mapi (fun i d ->
            let p = Array.of_list (split_on ':' d) in
            let mk cat argcats par =
              { s_opcode = z_of_int i; s_cat = nat_of_int (int_of_string cat); s_argcats = cats_of argcats;
                s_parametric = par; s_strat = dummy_strat } in
            match p.(0) with
            | "K" ->
                let c = classes.(int_of_string p.(1)) in
                disp.(i) <- Some (SClass c);
                mk p.(2) p.(3) c.tc_parametric
            | "D" -> disp.(i) <- Some (SConstD (F64.of_bits (z_of_hex p.(1)))); mk p.(2) "" false
            | "I" -> disp.(i) <- Some (SConstI (z_of_int (int_of_string p.(1)))); mk p.(2) "" false
            | "Q" -> disp.(i) <- Some (SConstS (bytes_of_hex p.(1))); mk p.(2) "" false
            | "N" ->
                let c = { tc_terminal = (p.(5) = "1"); tc_name = bytes_of_hex p.(1);
                          tc_arity = nat_of_int (List.length (cats_of p.(3)));
                          tc_parametric = (p.(4) = "1");
                          tc_c = TDefault; tc_cpp = TDefault; tc_mql = TDefault; tc_py = TDefault } in
                disp.(i) <- Some (SClass c);
                mk p.(2) p.(3) (p.(4) = "1")
            | _ -> failwith "sym") descs in
          let gl = split_on ';' gd in
          let genes = Array.of_list (List.map (fun g ->
            let p = Array.of_list (split_on ':' g) in
            let s = syms.(int_of_string p.(0)) in
            { g_sym = s;
              g_par = (if p.(1) = "-" then F64.of_bits Z0 else F64.of_bits (z_of_hex p.(1)));
              g_args = cats_of p.(2) }) gl) in
          (* optional 4th field: the row of the gene (default: its position) *)
          let grow = Array.of_list (List.mapi (fun i g ->
            let p = Array.of_list (split_on ':' g) in
            if Array.length p >= 4 then int_of_string p.(3) else i) gl) in
          let n = Array.fold_left (fun m r -> max m (r + 1)) 0 grow in
          let maxcat = Array.fold_left (fun m g -> max m (int_of_nat g.g_sym.s_cat)) 0 genes in
          let tbl = Hashtbl.create 64 in
          Array.iteri (fun i ge -> Hashtbl.replace tbl (grow.(i), int_of_nat ge.g_sym.s_cat) ge) genes;
          let g = { rows = nat_of_int n; cats = nat_of_int (maxcat + 1);
                    cell = (fun r c -> Hashtbl.find_opt tbl (int_of_nat r, int_of_nat c));
                    best = { l_index = O; l_cat = O } } in
          let env (op : z) = let i = int_of_z op in if i >= 0 && i < nsym then disp.(i) else None in
          let show f = match language env f g with Some t -> hex_of_bytes t | None -> "NONE" in
          (* the extracted reader applied to the printed text: y = it is the program's own
             expression (outermost parentheses stripped as language() does), x = it is not,
             n = the program is outside the hypotheses of the theorems *)
          let flag f =
            match active_tree g with
            | None -> 'n'
            | Some t ->
                if not (good_tree env f t && tree_ok env f t) then 'n'
                else
                  (match render_tree env f t, language_tree env f t with
                   | Some full, Some top ->
                       let want = if List.length top < List.length full then strip_paren (ast env f t) else ast env f t in
                       (match read f top with Some e -> if e = want then 'y' else 'x' | None -> 'x')
                   | _, _ -> 'x') in
          Printf.printf "c:%s cpp:%s mql:%s py:%s P:%c%c%c%c\n" (show FC) (show FCpp) (show FMql) (show FPy)
            (flag FC) (flag FCpp) (flag FMql) (flag FPy)
      | _ -> print_endline "BADLINE"
    done
  with End_of_file -> ()
