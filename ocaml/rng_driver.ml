(* Model driver for the engine model (C07).  All 64-bit numbers travel as 16
   hexadecimal digits, texts as hexadecimal bytes ("-" = empty).
     seq <seed> <n>                          new engine, n outputs      -> o.. | s0 s1 s2 s3
     st <s0> <s1> <s2> <s3> <n>              arbitrary state, n outputs -> o.. | s0 s1 s2 s3
     rseed <oldseed> <k> <s> <n>             engine(oldseed), k draws, vita::random::seed(s), n outputs
     save <s0> <s1> <s2> <s3>                -> text
     load <o0> <o1> <o2> <o3> <text>         -> OK s0 s1 s2 s3 <rest> | FAIL s0 s1 s2 s3
     reload <seed> <k> <other> <n> <rest>    engine(seed), k draws, save ++ rest, load into engine(other),
                                             n draws from both         -> OK <reloaded o..> | <original o..> | <rest>
     readu <text>                            -> OK v <rest> | FAIL v
     showu <v>                               -> text
     draws <seed> <req>...                   vita::random::seed(seed) then the requests in order, each answered by the
                                             modelled libstdc++ distribution from the engine state:
                                               i:<lo>:<hi> (signed hex)  r:<lo>:<hi> (double bits)  b:<p>  d:<w0,w1,..> (discrete_distribution)  s (one output skipped)
                                             -> i:<v> | r:<bits> | b:<0|1> | s | FAIL   per request                          *)
let n_of_hex h = Z.to_N (z_of_hex h)
let hex_of_n x = hex_of_z (Z.of_N x)
let bytes_of_hex (s : string) : n list =
  if s = "-" then [] else
  List.init (String.length s / 2) (fun i -> Z.to_N (z_of_int (int_of_string ("0x" ^ String.sub s (2 * i) 2))))
let hex_of_bytes (l : n list) : string =
  if l = [] then "-" else String.concat "" (List.map (fun c -> Printf.sprintf "%02x" (int_of_z (Z.of_N c))) l)
let show_state st = String.concat " " (List.map hex_of_n [st.s0; st.s1; st.s2; st.s3])
let show_outs l = String.concat " " (List.map hex_of_n l)
let mk a b c d = { s0 = n_of_hex a; s1 = n_of_hex b; s2 = n_of_hex c; s3 = n_of_hex d }
let ni s = nat_of_int (int_of_string s)
(* signed hexadecimal of any size: "-1f" *)
let z_of_shex (s : string) : z =
  if String.length s > 0 && s.[0] = '-' then Z.opp (z_of_hex (String.sub s 1 (String.length s - 1))) else z_of_hex s
let rec strip0 s = if String.length s > 1 && s.[0] = '0' then strip0 (String.sub s 1 (String.length s - 1)) else s
let shex_of_z (x : z) : string =
  match x with
  | Zneg p -> "-" ^ strip0 (hex_of_z ~width:20 (Zpos p))
  | _ -> strip0 (hex_of_z ~width:20 x)
let f64_of_hex h = F64.of_bits (z_of_hex h)
let hex_of_f64 f = if F64.is_nan f then "7ff8000000000000" else hex_of_z (F64.to_bits f)
let parse_req (t : string) : request =
  match String.split_on_char ':' t with
  | ["i"; lo; hi] -> QInt (z_of_shex lo, z_of_shex hi)
  | ["r"; lo; hi] -> QReal (f64_of_hex lo, f64_of_hex hi)
  | ["b"; p] -> QBool (f64_of_hex p)
  | ["d"; ws] -> QDisc (List.map (fun w -> z_of_int (int_of_string w)) (String.split_on_char ',' ws))
  | ["s"] -> QSkip
  | _ -> failwith ("request " ^ t)
let show_answer = function
  | AInt v -> "i:" ^ shex_of_z v
  | AReal v -> "r:" ^ hex_of_f64 v
  | ABool b -> if b then "b:1" else "b:0"
  | ADisc v -> "d:" ^ shex_of_z v
  | ASkipped -> "s"
  | AFail -> "FAIL"

let () =
  try
    while true do
      let line = input_line stdin in
      (match split_ws line with
       | ["seq"; seed; n] ->
           let st = new_engine (n_of_hex seed) in
           print_endline (show_outs (outputs (ni n) st) ^ " | " ^ show_state (advance (ni n) st))
       | ["st"; a; b; c; d; n] ->
           let st = mk a b c d in
           print_endline (show_outs (outputs (ni n) st) ^ " | " ^ show_state (advance (ni n) st))
       | ["rseed"; old; k; s; n] ->
           let st = advance (ni k) (new_engine (n_of_hex old)) in
           let st = random_seed st (n_of_hex s) in
           print_endline (show_outs (outputs (ni n) st) ^ " | " ^ show_state (advance (ni n) st))
       | ["save"; a; b; c; d] -> print_endline (hex_of_bytes (save_state (mk a b c d)))
       | ["load"; a; b; c; d; txt] ->
           (match load_state (mk a b c d) (bytes_of_hex txt) with
            | LoadOk (st, rest) -> print_endline ("OK " ^ show_state st ^ " " ^ hex_of_bytes rest)
            | LoadFail st -> print_endline ("FAIL " ^ show_state st))
       | ["reload"; seed; k; other; n; rest] ->
           let st = advance (ni k) (new_engine (n_of_hex seed)) in
           let r = bytes_of_hex rest in
           (match load_state (new_engine (n_of_hex other)) (app (save_state st) r) with
            | LoadOk (st', rest') ->
                print_endline ("OK " ^ show_outs (outputs (ni n) st') ^ " | " ^ show_outs (outputs (ni n) st)
                               ^ " | " ^ hex_of_bytes rest')
            | LoadFail _ -> print_endline "FAIL")
       | ["readu"; txt] ->
           (match read_u (bytes_of_hex txt) with
            | RdOk (v, rest) -> print_endline ("OK " ^ hex_of_n v ^ " " ^ hex_of_bytes rest)
            | RdFail v ->
                (* an extraction attempted at end of input stores nothing: the harness' variable keeps 0x5555 *)
                if at_eof (bytes_of_hex txt) then print_endline "FAIL 0000000000005555"
                else print_endline ("FAIL " ^ hex_of_n v))
       | ["showu"; v] -> print_endline (hex_of_bytes (show_u (n_of_hex v)))
       | "draws" :: seed :: reqs ->
           let st = random_seed zero_state (n_of_hex seed) in
           let ans = answers (nat_of_int 1000) (List.map parse_req reqs) st in
           print_endline (String.concat " " (List.map show_answer ans))
       | _ -> print_endline "BADLINE")
    done
  with End_of_file -> ()
