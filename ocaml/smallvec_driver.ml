(* Model driver for C20 (small_vector).  Same line protocol as
   harness/h_smallvec.cc:
     input : <T> <S> <op> ...        output: one record per op, then the end record
   A leading '!' on the type selects the model of the pinned (unrepaired) tree. *)
let ints (s : string) : int list =
  List.map int_of_string (List.filter (fun w -> w <> "") (String.split_on_char ',' s))

let parse_op (w : string) : op =
  let t = (w.[1] = 'b') in
  let z = ints (String.sub w 2 (String.length w - 2)) in
  let n i = nat_of_int (List.nth z i) in
  let v i = z_of_int (List.nth z i) in
  match w.[0] with
  | 'N' -> CtorN (t, n 0)
  | 'F' -> CtorFill (t, n 0, v 1)
  | 'L' -> CtorList (t, List.map z_of_int z)
  | 'C' -> CopyCtor t
  | 'M' -> MoveCtor t
  | 'A' -> CopyAssign t
  | 'V' -> MoveAssign t
  | 'Y' -> SelfAssign t
  | 'X' -> Clear t
  | 'P' -> PushBack (t, v 0)
  | 'Q' -> PushBackSelf (t, n 0)
  | 'E' -> EmplaceBack (t, v 0)
  | 'G' -> EmplaceBackSelf (t, n 0)
  | 'I' -> Insert (t, n 0, List.map z_of_int (List.tl z))
  | 'R' -> Resize (t, n 0)
  | 'Z' -> Reserve (t, n 0)
  | 'S' -> SetAt (t, n 0, v 1)
  | _ -> failwith ("op " ^ w)

let err_name = function
  | DoubleConstruct -> "DoubleConstruct" | DestroyRaw -> "DestroyRaw" | AssignRaw -> "AssignRaw"
  | ReadRaw -> "ReadRaw" | ReadIndet -> "ReadIndet" | Leak -> "Leak" | BadRange -> "BadRange"

let show_sv (s : sv) : string =
  let body = match contents s with
    | Ok l -> String.concat "," (List.map (fun x -> string_of_int (int_of_z x)) l)
    | Err e -> "ERR:" ^ err_name e in
  (if is_heap s then "h" else "l") ^ string_of_int (int_of_nat (capacity s)) ^ "[" ^ body ^ "]"

let b2s = function Ok true -> "1" | Ok false -> "0" | Err _ -> "E"
let nb2s = function Ok true -> "0" | Ok false -> "1" | Err _ -> "E"

(* value codes of the double instantiation: integers stand for themselves,
   100001.. are the special values the harness maps them to; the element
   operator== / operator< are the IEEE comparisons of OCaml floats *)
let double_of_code (z : int) : float =
  match z with
  | 100001 -> (-0.0)
  | 100002 -> Int64.float_of_bits 0x7ff8000000000000L
  | 100003 -> Int64.float_of_bits 0x7ff8000000000123L
  | 100004 -> infinity
  | 100005 -> neg_infinity
  | 100006 -> Int64.float_of_bits 1L
  | 100007 -> Int64.float_of_bits 0x8000000000000001L
  | 100008 -> Int64.float_of_bits 0x000fffffffffffffL
  | _ -> float_of_int z

let record (p : params) (tracked : bool) ((st, r) : state * nat option) : string =
  let a = st.sa and b = st.sb in
  (match r with Some k -> string_of_int (int_of_nat k) | None -> "-")
  ^ ";" ^ show_sv a ^ ";" ^ show_sv b ^ ";"
  (* == != < <= > >=, the last four as the source defines them from == and < *)
  ^ b2s (sv_eq p a b) ^ nb2s (sv_eq p a b) ^ b2s (sv_lt p a b) ^ nb2s (sv_lt p b a)
  ^ b2s (sv_lt p b a) ^ nb2s (sv_lt p a b)
  ^ ";" ^ (if tracked then string_of_int (int_of_nat (live_count p a) + int_of_nat (live_count p b)) else "-")
  ^ ";-;ok"

let () =
  try
    while true do
      let line = input_line stdin in
      match split_ws line with
      | ty :: s :: ops ->
          let pinned = ty.[0] = '!' in
          let ty = if pinned then String.sub ty 1 (String.length ty - 1) else ty in
          let triv, mvf = match ty with
            | "i" | "d" -> true, (fun x -> x)
            | "s" -> false, (fun _ -> Z0)
            | _ -> false, (fun _ -> z_of_int (-1)) in
          let eqf, ltf =
            if ty = "d" then
              (fun x y -> (double_of_code (int_of_z x) : float) = double_of_code (int_of_z y)),
              (fun x y -> (double_of_code (int_of_z x) : float) < double_of_code (int_of_z y))
            else
              (fun x y -> int_of_z x = int_of_z y), (fun x y -> int_of_z x < int_of_z y) in
          let p = { pS = nat_of_int (int_of_string s); ptriv = triv; pdflt = Z0; pmv = mvf;
                    peq = eqf; plt = ltf } in
          let tracked = (ty = "k") in
          let ops = List.map parse_op ops in
          let buf = Buffer.create 256 in
          if pinned then begin
            (* step by step with the pinned methods, no validity check *)
            let rec go st = function
              | [] ->
                (match finish p st with
                 | Ok _ -> Buffer.add_string buf ("end;" ^ (if tracked then "0" else "-") ^ ";-;0")
                 | Err e -> Buffer.add_string buf ("ERR:" ^ err_name e))
              | o :: r ->
                (match step_pinned p o st with
                 | Ok (st', out) -> Buffer.add_string buf (record p tracked (st', out) ^ " | "); go st' r
                 | Err e -> Buffer.add_string buf ("ERR:" ^ err_name e)) in
            go (init p) ops
          end else begin
            let emit tr = List.iter (fun x -> Buffer.add_string buf (record p tracked x ^ " | ")) tr in
            match run p ops (init p) with
            | Finished (tr, _) -> emit tr; Buffer.add_string buf ("end;" ^ (if tracked then "0" else "-") ^ ";-;0")
            | Failed (tr, e) -> emit tr; Buffer.add_string buf ("ERR:" ^ err_name e)
            | Invalid tr -> emit tr; Buffer.add_string buf "INVALID"
          end;
          print_endline (Buffer.contents buf)
      | _ -> print_endline "BADLINE"
    done
  with End_of_file -> ()
