(* Model driver for the primitive layer.
   input : <index in prims_all> <param hex|-> <argc> <value>...
   output: <value> f <fetched...>  |  THROW  |  STUCK
   input : TREE <nvars> <value>... <node>...   (C13; nodes in prefix order)
             node = P:<index in prims_all>:<index in c13_table>:<cat>:<argcats|->:<param|->  |  V:<i>:<cat>
   output: <value> wt|notwt  |  THROW  |  STUCK  |  MISMATCH
           (wt: every primitive node passes RealDefs.sig_okb for categories 0 real, 1 int, 2 string) *)
let f64_of_hex h = F64.of_bits (z_of_hex h)
let hex_of_f64 f = hex_of_z (F64.to_bits f)
let float_of_f64 f = Int64.float_of_bits (int64_bits_of_z (F64.to_bits f))
let f64_of_float x = F64.of_bits (z_of_int64_bits (Int64.bits_of_float x))
let lift1 g = fun f -> f64_of_float (g (float_of_f64 f))
let lm = { l_log = lift1 log; l_exp = lift1 exp; l_sin = lift1 sin; l_cos = lift1 cos }

let parse_value (t : string) : value =
  if t = "v" then VVoid
  else
    let p = String.sub t 2 (String.length t - 2) in
    match t.[0] with
    | 'i' -> VInt (z_of_int (int_of_string p))
    | 'd' -> VDouble (f64_of_hex p)
    | 's' ->
        let n = String.length p / 2 in
        VString (List.init n (fun i -> z_of_int (int_of_string ("0x" ^ String.sub p (2 * i) 2))))
    | _ -> failwith "value"

let show_value (v : value) : string =
  match v with
  | VVoid -> "v"
  | VInt z -> "i:" ^ dec_of_z z
  | VDouble f -> "d:" ^ hex_of_f64 f
  | VString s -> "s:" ^ String.concat "" (List.map (fun c -> Printf.sprintf "%02x" (int_of_z c)) s)

(* ---- C13: whole programs ---- *)
let kc (c : nat) : kind = match int_of_nat c with 0 -> KReal | 1 -> KInt | _ -> KStr
let split_on sep s = String.split_on_char sep s
let cats_of s = if s = "-" then [] else List.map (fun x -> nat_of_int (int_of_string x)) (split_on ',' s)
exception Mismatch
let run_tree_line (bodies : stmt list array) (w : string list) : string =
  let nv = int_of_string (List.nth w 1) in
  let rest = List.tl (List.tl w) in
  let vals = List.filteri (fun i _ -> i < nv) rest in
  let vars = Array.of_list (List.map parse_value vals) in
  let toks = ref (List.filteri (fun i _ -> i >= nv) rest) in
  let wt = ref true in
  let table = Array.of_list c13_table in
  let rec node () : tree =
    match !toks with
    | [] -> raise Mismatch
    | t :: r ->
        toks := r;
        (match split_on ':' t with
         | ["V"; i; c] ->
             let i = nat_of_int (int_of_string i) in
             Node ({ s_opcode = Z0; s_cat = nat_of_int (int_of_string c); s_argcats = []; s_parametric = false;
                     s_strat = Var (i, (fun v -> Ret (Val v))) }, F64.of_bits Z0, [])
         | ["P"; idx; tix; c; acs; par] ->
             let (body, sg) = table.(int_of_string tix) in
             if body <> bodies.(int_of_string idx) then raise Mismatch;
             let cat = nat_of_int (int_of_string c) in
             let argcats = cats_of acs in
             if not (sig_okb kc sg argcats cat) then wt := false;
             let kids = List.map (fun _ -> node ()) argcats in
             let p = if par = "-" then F64.of_bits Z0 else f64_of_hex par in
             Node ({ s_opcode = Z0; s_cat = cat; s_argcats = argcats; s_parametric = (par <> "-");
                     s_strat = strategy_of lm body }, p, kids)
         | _ -> raise Mismatch) in
  try
    let t = node () in
    if !toks <> [] then raise Mismatch;
    let lookup (i : nat) = let k = int_of_nat i in if k < Array.length vars then Some vars.(k) else None in
    (match run_tree lookup t with
     | Val v -> show_value v ^ (if !wt then " wt" else " notwt")
     | Throw -> "THROW"
     | Stuck -> "STUCK")
  with Mismatch -> "MISMATCH"

let () =
  let bodies = Array.of_list prims_all in
  try
    while true do
      let line = input_line stdin in
      match split_ws line with
      | "TREE" :: _ as w -> print_endline (run_tree_line bodies w)
      | "LIBM" :: fn :: h :: _ ->
          (* the oracle the model is run with, for the H_libm measurements of C13 *)
          let f = (match fn with "sin" -> lm.l_sin | "cos" -> lm.l_cos | "exp" -> lm.l_exp | _ -> lm.l_log) in
          print_endline (hex_of_f64 (f (f64_of_hex h)))
      | idx :: par :: argc :: rest ->
          let body = bodies.(int_of_string idx) in
          let args = List.map parse_value (List.filteri (fun i _ -> i < int_of_string argc) rest) in
          let st = { s_arg = (fun i -> List.nth_opt args (int_of_nat i));
                     s_par = (if par = "-" then None else Some (f64_of_hex par));
                     s_var = (fun _ -> None) } in
          let s = strategy_of lm body in
          (match run_stub s st with
           | Val v ->
               let fs = fetched s st in
               print_string (show_value v ^ " f");
               List.iter (fun i -> print_string (" " ^ string_of_int (int_of_nat i))) fs;
               print_newline ()
           | Throw -> print_endline "THROW"
           | Stuck -> print_endline "STUCK")
      | _ -> print_endline "BADLINE"
    done
  with End_of_file -> ()
