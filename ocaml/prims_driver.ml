(* Model driver for the primitive layer.
   input : <index in prims_all> <param hex|-> <argc> <value>...
   output: <value> f <fetched...>  |  THROW  |  STUCK            *)
let f64_of_hex h = F64.of_bits (z_of_hex h)
let hex_of_f64 f = hex_of_z (F64.to_bits f)
let float_of_f64 f = Int64.float_of_bits (int64_bits_of_z (F64.to_bits f))
let f64_of_float x = F64.of_bits (z_of_int64_bits (Int64.bits_of_float x))
let lift1 g = fun f -> f64_of_float (g (float_of_f64 f))
let lm = { l_log = lift1 log; l_exp = lift1 exp; l_sin = lift1 sin; l_cos = lift1 cos }

let parse_value (t : string) : value =
  if t = "v" then VVoid
  else
    let p = String.sub t 2 (String.length t - 2) in
    match t.[0] with
    | 'i' -> VInt (z_of_int (int_of_string p))
    | 'd' -> VDouble (f64_of_hex p)
    | 's' ->
        let n = String.length p / 2 in
        VString (List.init n (fun i -> z_of_int (int_of_string ("0x" ^ String.sub p (2 * i) 2))))
    | _ -> failwith "value"

let show_value (v : value) : string =
  match v with
  | VVoid -> "v"
  | VInt z -> "i:" ^ dec_of_z z
  | VDouble f -> "d:" ^ hex_of_f64 f
  | VString s -> "s:" ^ String.concat "" (List.map (fun c -> Printf.sprintf "%02x" (int_of_z c)) s)

let () =
  let bodies = Array.of_list prims_all in
  try
    while true do
      let line = input_line stdin in
      match split_ws line with
      | idx :: par :: argc :: rest ->
          let body = bodies.(int_of_string idx) in
          let args = List.map parse_value (List.filteri (fun i _ -> i < int_of_string argc) rest) in
          let st = { s_arg = (fun i -> List.nth_opt args (int_of_nat i));
                     s_par = (if par = "-" then None else Some (f64_of_hex par));
                     s_var = (fun _ -> None) } in
          let s = strategy_of lm body in
          (match run_stub s st with
           | Val v ->
               let fs = fetched s st in
               print_string (show_value v ^ " f");
               List.iter (fun i -> print_string (" " ^ string_of_int (int_of_nat i))) fs;
               print_newline ()
           | Throw -> print_endline "THROW"
           | Stuck -> print_endline "STUCK")
      | _ -> print_endline "BADLINE"
    done
  with End_of_file -> ()
