(* Model driver of C06 (event model of an evolutionary run).

   input : one case per line:
             ENVM <strat> <individuals> <min_individuals> <layers> <tournament> <mate_zone>
                  <elitism> <age_gap> <p_same 0|m|1> <p_cross 0|m|1> <pmut0 0|1>   <trace of harness/h_evo.cc>
   output: OK <counters>      the model accepted every event and reached the
                              implementation's population and summary after each,
                              and every oracle held on the implementation's dumps
           FAIL <counters> | <finding> ...
             R:<k>:<what>  step_ok = None on event k (model rejects what the code did)
             D:<k>:<what>  model state after event k differs from the dump
             X:<k>:<what>  an oracle (boolean form of a theorem, extracted from
                           Coq) is false on the implementation's own data      *)

(* fitness_t as seen by the model: bit patterns for identity, floats for order *)
type fitv = { bits : string; vals : float list }

(* std::lexicographical_compare with operator< on doubles *)
let rec flt_l (a : float list) (b : float list) : bool =
  match a, b with
  | _, [] -> false
  | [], _ -> true
  | x :: xs, y :: ys -> if x < y then true else if y < x then false else flt_l xs ys
let flt (a : fitv) (b : fitv) : bool = flt_l a.vals b.vals

let fit_of_token (t : string) : fitv =
  if t = "-" then { bits = t; vals = [] }
  else
    { bits = t;
      vals = List.map (fun h -> Int64.float_of_bits (Int64.of_string ("0x" ^ h))) (String.split_on_char '/' t) }

exception Parse of string

let toks : string array ref = ref [||]
let pos = ref 0
let peek () = if !pos < Array.length !toks then !toks.(!pos) else "EOF"
let next () = let t = peek () in incr pos; t
let expect s = let t = next () in if t <> s then raise (Parse ("expected " ^ s ^ " got " ^ t))
let next_int () = let t = next () in try int_of_string t with _ -> raise (Parse ("int: " ^ t))
let next_nat () = nat_of_int (next_int ())
let next_z () = z_of_int (next_int ())

let read_ind () : fitv ind =
  let u = z_of_hex (next ()) in
  let a = next_z () in
  let f = fit_of_token (next ()) in
  { uid = u; age = a; fit = f }

let rec read_n n f = if n <= 0 then [] else let x = f () in x :: read_n (n - 1) f

let read_pop () : fitv population * bool =
  expect "P";
  let nl = next_int () in
  let p = read_n nl (fun () ->
    let al = next_nat () in
    let cnt = next_int () in
    let ms = read_n cnt read_ind in
    { members = ms; allowed = al }) in
  expect "V";
  let v = next_int () in
  (p, v = 1)

let read_sum () : fitv summary =
  expect "B";
  let b = read_ind () in
  let bf = fit_of_token (next ()) in
  let li = next_z () in
  let g = next_z () in
  { best_sol = b; best_fit = bf; last_imp = li; gen = g }

let read_coords () : coord list =
  let k = next_int () in
  read_n k (fun () -> let l = next_nat () in let i = next_nat () in (l, i))

let ind_eq (a : fitv ind) (b : fitv ind) = a.uid = b.uid && a.age = b.age && a.fit.bits = b.fit.bits
let rec list_eq f a b = match a, b with
  | [], [] -> true | x :: xs, y :: ys -> f x y && list_eq f xs ys | _ -> false
let layer_eq (a : fitv layer) (b : fitv layer) = a.allowed = b.allowed && list_eq ind_eq a.members b.members
let pop_eq a b = list_eq layer_eq a b
let sum_eq (a : fitv summary) (b : fitv summary) =
  ind_eq a.best_sol b.best_sol && a.best_fit.bits = b.best_fit.bits && a.last_imp = b.last_imp && a.gen = b.gen

let findings : string list ref = ref []
let add kind k what = findings := (Printf.sprintf "%s:%d:%s" kind k what) :: !findings

(* oracles on one dump *)
let check_dump (e : env) (k : int) (s : fitv state) (valid : bool) =
  if not valid then add "X" k "individual_not_well_formed";
  if not (inv_b flt e s) then begin
    if not (layer_bound_b s.pop) then add "X" k "layer_bound";
    if not (layers_nonempty_b s.pop) then add "X" k "empty_layer";
    if not (size_constant_b e s.pop) then add "X" k "size_constant";
    if not (summary_b flt s.sm) then begin
      if int_of_z s.sm.last_imp > int_of_z s.sm.gen then add "X" k "last_imp_le_gen"
      else add "X" k "best_is_score_of_best"
    end
  end

(* ---- analyzer statistics: bit patterns (the model's [stat]) and the
   floating-point predicates of utility.h / fitness.tcc over them ---- *)
let stat_of_token (t : string) : stat =
  if t = "-" then [] else List.map z_of_hex (String.split_on_char '/' t)
let float_of_zbits (b : z) : float = Int64.float_of_bits (int64_bits_of_z b)
let dbl_eps = epsilon_float
(* template<class T> bool issmall(T v) { return std::abs(v) < 2.0 * epsilon; } *)
let issmall_d (v : float) : bool = Float.abs v < 2.0 *. dbl_eps
(* template<class T> bool almost_equal(T v1, T v2, T e = 0.00001) *)
let almost_equal_d (v1 : float) (v2 : float) : bool =
  let diff = Float.abs (v1 -. v2) in
  if issmall_d diff then true
  else
    let a1 = Float.abs v1 and a2 = Float.abs v2 in
    (* std::max(v1, v2) = (v1 < v2) ? v2 : v1 *)
    let largest = if a1 < a2 then a2 else a1 in
    diff <= largest *. 0.00001
let ops : stat_ops =
  { st_almost_equal = (fun a b ->
      List.length a = List.length b
      && List.for_all2 (fun x y -> almost_equal_d (float_of_zbits x) (float_of_zbits y)) a b);
    st_small = (fun a -> List.for_all (fun x -> issmall_d (float_of_zbits x)) a);
    st_gt = (fun a z -> match a with
                        | x :: _ -> float_of_zbits x > float_of_int (int_of_z z)
                        | [] -> false) }

(* AZ <groups> {fit mean, fit sd, age mean}*groups <fit variance> *)
let read_az () : stats =
  expect "AZ";
  let n = next_int () in
  let rows = read_n n (fun () ->
    let m = stat_of_token (next ()) in let sd = stat_of_token (next ()) in let am = stat_of_token (next ()) in
    (m, sd, am)) in
  let var = stat_of_token (next ()) in
  { fit_mean = List.map (fun (m, _, _) -> m) rows; fit_sd = List.map (fun (_, s, _) -> s) rows;
    age_mean = List.map (fun (_, _, a) -> a) rows; fit_var = var }

(* selection draws; for ALPS also the bounds random::sup was called with *)
let read_sel () : sel_draws * int list =
  match next () with
  | "ST" ->
      let tl = next_nat () in let ti = next_nat () in
      let n = next_int () in
      (SelTournament ((tl, ti), read_n n next_z), [])
  | "SR" -> (SelRandom (read_coords ()), [])
  | "SA" ->
      let layer = next_nat () in
      let rd () = let b = next_int () = 1 in let i = next_nat () in (b, i) in
      let pk0 = rd () in let pk1 = rd () in
      let n = next_int () in
      let pks = read_n n rd in
      expect "SUP";
      let nb = next_int () in
      let bs = read_n nb next_int in
      (SelAlps (layer, pk0, pk1, pks), bs)
  | t -> raise (Parse ("sel " ^ t))

(* every index of alps::pickup must have been drawn below the size of the
   layer the individual is taken from *)
let check_alps_bounds (k : int) (p : fitv population) (sd : sel_draws) (bs : int list) =
  match sd with
  | SelAlps (layer, pk0, pk1, pks) ->
      let l = int_of_nat layer in
      let size j = match List.nth_opt p j with Some ly -> List.length ly.members | None -> -1 in
      let picks = pk0 :: pk1 :: pks in
      if List.length picks <> List.length bs then add "D" k "alps_pickup_draw_count"
      else
        List.iter2 (fun (same, _) b ->
          let l' = if l = 0 || same then l else l - 1 in
          if b <> size l' then add "D" k "alps_pickup_draw_bound") picks bs
  | _ -> ()

let prob3_of = function "0" -> P0 | "1" -> P1 | _ -> Pmid

let process (line : string) : string =
  toks := Array.of_list (split_ws line);
  pos := 0;
  findings := [];
  let nstep = ref 0 and ngen = ref 0 and nshake = ref 0 and ncb = ref 0 and nrepl = ref 0 and nbest = ref 0
  and maxlayers = ref 1 and nrestart = ref 0 and nadd = ref 0 and nremoved = ref 0 and nskip = ref 0
  and nstopchk = ref 0 and nstopped = ref 0 and nsel = ref 0 in
  (try
    expect "ENVM";
    let strat = match next () with "std" -> Std | "de" -> De | "alps" -> Alps | "dealps" -> DeAlps
                                   | t -> raise (Parse ("strat " ^ t)) in
    let individuals = next_nat () in
    let min_individuals = next_nat () in
    let layers = next_nat () in
    let tournament = next_nat () in
    let mate_zone = next_z () in
    let elitism = next_int () = 1 in
    let age_gap = next_z () in
    let p_same = prob3_of (next ()) in
    let p_cross = prob3_of (next ()) in
    let pmut0 = next_int () = 1 in
    let e = { e_strat = strat; e_individuals = individuals; e_min_individuals = min_individuals;
              e_layers = layers; e_tournament = tournament; e_mate_zone = mate_zone; e_elitism = elitism;
              e_age_gap = age_gap; e_p_same = p_same; e_p_cross = p_cross; e_pmut0 = pmut0 } in
    let k = ref 0 in
    let first = next () in
    (* current state: [model] is what the model has reached, [impl] the last dump *)
    let model : fitv state option ref = ref None in
    let impl : fitv state option ref = ref None in
    let shaken = ref false in
    if first = "INIT" then begin
      let (p, v) = read_pop () in
      let sm = read_sum () in
      let s = { pop = p; sm = sm } in
      check_dump e 0 s v;
      (match p with
       | [ ly ] ->
           (match init_state e ly.members with
            | Some s0 -> if not (pop_eq s0.pop p && sum_eq s0.sm sm) then add "D" 0 "init"
            | None -> add "R" 0 "init")
       | _ -> add "R" 0 "init_layers");
      model := Some s; impl := Some s
    end else if first <> "SEARCH" && first <> "INITSEL" then raise (Parse ("first token " ^ first));
    let continue = ref true in
    while !continue do
      incr k;
      let t = next () in
      match t with
      | "END" | "RESULT" | "EOF" -> continue := false
      | "NEWRUN" -> model := None; impl := None; shaken := false; decr k
      | "RERUN" ->
          (* run() again on the same evolution object: the summary starts afresh
             (stats_.clear(); best = pop[{0,0}] and its score) *)
          decr k;
          let (p, _) = read_pop () in
          (match p with
           | { members = x0 :: _; _ } :: _ ->
               let s0 = { pop = p; sm = { best_sol = x0; best_fit = x0.fit; last_imp = z_of_int 0; gen = z_of_int 0 } } in
               model := Some s0; impl := Some s0
           | _ -> model := None; impl := None);
          shaken := false
      | "SHAKEN" -> shaken := true; decr k
      | "CB" ->
          incr ncb;
          let (p, v) = read_pop () in
          let sm = read_sum () in
          let s = { pop = p; sm = sm } in
          check_dump e !k s v;
          maxlayers := max !maxlayers (List.length p);
          (match !impl with
           | Some prev when not !shaken ->
               if not (best_monotone_b flt prev s) then add "X" !k "best_monotone"
           | _ -> ());
          shaken := false;
          impl := Some s; model := Some s
      | "SHAKE" ->
          incr nshake;
          let (p, v) = read_pop () in
          let sm = read_sum () in
          let s = { pop = p; sm = sm } in
          check_dump e !k s v;
          (match !model with
           | Some m ->
               let ev = EShake (sm.best_fit, List.map (fun ly -> List.map (fun x -> x.fit) ly.members) p) in
               (match step_ok flt ops e m ev with
                | None -> add "R" !k "shake"
                | Some s' ->
                    (* the model re-evaluates the best individual: same value as the dump's eva(best) *)
                    if not (pop_eq s'.pop p) then add "D" !k "shake_pop";
                    if not (s'.sm.best_fit.bits = sm.best_fit.bits && s'.sm.last_imp = sm.last_imp
                            && s'.sm.gen = sm.gen && s'.sm.best_sol.uid = sm.best_sol.uid) then add "D" !k "shake_summary")
           | None -> ());
          model := Some s; impl := Some s
      | "STEP" ->
          incr nstep;
          let (sd, sup_bounds) = read_sel () in
          let rd = match next () with
            | "RB" -> RecBase (match next () with "C" -> Cross | "1" -> Copy1 | _ -> Copy2)
            | "RD" -> let a = next_z () in let b = next_z () in RecDe (a, b)
            | t -> raise (Parse ("rec " ^ t)) in
          expect "O";
          let o = read_ind () in
          expect "D";
          let nd = next_int () in
          let ds = read_n nd next_nat in
          expect "PAR";
          let par = read_coords () in
          let (p, v) = read_pop () in
          let sm = read_sum () in
          let s = { pop = p; sm = sm } in
          check_dump e !k s v;
          (* oracles on the implementation's own step: previous dump -> this dump *)
          (match !impl with
           | Some prev ->
               if not (best_monotone_b flt prev s) then add "X" !k "best_monotone";
               if not (pop_eq prev.pop p) then incr nrepl;
               if prev.sm.best_fit.bits <> sm.best_fit.bits then incr nbest;
               check_alps_bounds !k prev.pop sd sup_bounds;
               if not (parents_exist_b prev.pop par) then add "X" !k "members_exist";
               (match sd with
                | SelTournament (tgt, _) ->
                    if not (tournament_parents_b flt e prev.pop tgt par) then add "X" !k "tournament_parents_in_zone_sorted"
                | SelRandom _ ->
                    if List.length par <> int_of_nat e.e_tournament then add "X" !k "parents_count"
                | SelAlps (layer, _, _, _) ->
                    if not (alps_parents_b prev.pop layer par) then add "X" !k "alps_parents_layer_or_below");
               if (not (is_alps e)) && e.e_elitism && not (keeps_max_b flt prev.pop p) then add "X" !k "elitism_keeps_max"
           | None -> ());
          (* correspondence: the model must accept the event and reach the dump *)
          (match !model with
           | Some m ->
               let ev = EStep (sd, rd, o, ds) in
               (match parents_of flt e m ev with
                | Some mp -> if mp <> par then add "D" !k "parents"
                | None -> ());
               (match step_ok flt ops e m ev with
                | None -> add "R" !k "step"
                | Some s' ->
                    if not (pop_eq s'.pop p) then add "D" !k "step_pop";
                    if not (sum_eq s'.sm sm) then add "D" !k "step_summary")
           | None -> ());
          model := Some s; impl := Some s
      | "SEL" ->
          incr nsel;
          let (sd, sup_bounds) = read_sel () in
          expect "PAR";
          let par = read_coords () in
          (match !impl with
           | Some st ->
               check_alps_bounds !k st.pop sd sup_bounds;
               if not (parents_exist_b st.pop par) then add "X" !k "members_exist";
               (match sd with
                | SelAlps (layer, _, _, _) ->
                    if not (alps_parents_b st.pop layer par) then add "X" !k "alps_parents_layer_or_below"
                | _ -> ());
               (match select flt e st.pop sd with
                | None -> add "R" !k "select"
                | Some mp -> if mp <> par then add "D" !k "parents")
           | None -> ())
      | "STOP" ->
          decr k;
          let st = read_az () in
          let g = next_z () in let li = next_z () in let ms = next_z () in
          let res = next_int () = 1 in
          incr nstopchk;
          let sm0 = (match !impl with Some s -> s.sm | None -> raise (Parse "STOP before INIT")) in
          let smx = { sm0 with gen = g; last_imp = li } in
          let want = (match e.e_strat with Std -> std_stop_condition ops ms smx st | _ -> false) in
          if want <> res then add "D" !k "stop_condition";
          if res then incr nstopped
      | "GEN" ->
          incr ngen;
          let st = read_az () in
          expect "D";
          let nd = next_int () in
          let ds = read_n nd next_nat in
          let (p, v) = read_pop () in
          let sm = read_sum () in
          let s = { pop = p; sm = sm } in
          check_dump e !k s v;
          maxlayers := max !maxlayers (List.length p);
          (match !impl with
           | Some prev ->
               if not (best_monotone_b flt prev s) then add "X" !k "best_monotone";
               if (not (is_alps e)) && not (keeps_max_b flt prev.pop p) then add "X" !k "elitism_keeps_max"
           | None -> ());
          (match !model with
           | Some m ->
               (* the individuals created by add_layer / init_layer are the new layer 0 *)
               let news = (match p with ly :: _ when is_alps e -> ly.members | _ -> []) in
               let a = { ag_stats = st; ag_draws = ds; ag_news = news } in
               (if is_alps e then begin
                  let l0 = List.length m.pop and lf = List.length p in
                  if lf > l0 then incr nadd
                  else if lf < l0 then nremoved := !nremoved + (l0 - lf)
                end);
               (match step_ok flt ops e m (EAfterGen a) with
                | None -> add "R" !k "after_generation"
                | Some s' ->
                    if not (pop_eq s'.pop p) then add "D" !k "aftergen_pop";
                    if not (sum_eq s'.sm sm) then add "D" !k "aftergen_summary")
           | None -> ());
          model := Some s; impl := Some s
      | "EXC" -> add "R" !k ("exception_" ^ peek ()); continue := false
      | t -> raise (Parse ("event " ^ t))
    done
  with
  | Parse m -> add "R" (-1) ("parse_" ^ String.concat "_" (split_ws m))
  | Failure m -> add "R" (-1) ("failure_" ^ String.concat "_" (split_ws m))
  | Not_found -> add "R" (-1) "not_found");
  let counters = Printf.sprintf "steps=%d gens=%d shakes=%d cbs=%d replaced=%d best_updates=%d maxlayers=%d added=%d removed=%d stop_checks=%d stopped=%d selections=%d"
      !nstep !ngen !nshake !ncb !nrepl !nbest !maxlayers !nadd !nremoved !nstopchk !nstopped !nsel in
  match List.rev !findings with
  | [] -> "OK " ^ counters
  | fs ->
      let fs = List.filteri (fun i _ -> i < 12) fs in
      "FAIL " ^ counters ^ " | " ^ String.concat " " fs


(* ---------------------------------------------------------------- tuning
   TUNEM <search|ga|src> <std|alps|de> <asis|dss|holdout> <rows> <terminals> <reconcile 0|1> U <18 user fields> I <18 tuned fields> <valid>
   (reconcile = 1: the source calls environment::reconcile, model = tune_rec)
   fields: code patch elitism(-1|0|1) p_mutation p_cross (thousandths) brood layers individuals min_individuals
           tournament mate_zone generations max_stuck_time(-1 = unset) dss(-1) validation(-1) age_gap p_same_layer team *)
let read_tenv () : tenv =
  let code = next_z () in let patch = next_z () in
  let el = next_int () in
  let pm = next_z () in let pc = next_z () in
  let brood = next_z () in let layers = next_z () in let ind = next_z () in let mini = next_z () in
  let tour = next_z () in let mate = next_z () in let gens = next_z () in
  let opt () = let v = next_int () in if v < 0 then None else Some (z_of_int v) in
  let stuck = opt () in let dss = opt () in let vali = opt () in
  let gap = next_z () in let psame = next_z () in let team = next_z () in
  { code_length = code; patch_length = patch; elitism = (if el < 0 then None else Some (el = 1));
    p_mutation = pm; p_cross = pc; brood = brood; layers = layers; individuals = ind; min_individuals = mini;
    tournament = tour; mate_zone = mate; generations = gens; max_stuck_time = stuck; dss = dss; validation = vali;
    age_gap = gap; p_same_layer = psame; team_individuals = team }

let show_tenv (t : tenv) : string =
  let o = function None -> "-1" | Some v -> dec_of_z v in
  String.concat " " [ dec_of_z t.code_length; dec_of_z t.patch_length;
    (match t.elitism with None -> "-1" | Some true -> "1" | Some false -> "0");
    dec_of_z t.p_mutation; dec_of_z t.p_cross; dec_of_z t.brood; dec_of_z t.layers; dec_of_z t.individuals;
    dec_of_z t.min_individuals; dec_of_z t.tournament; dec_of_z t.mate_zone; dec_of_z t.generations;
    o t.max_stuck_time; o t.dss; o t.validation; dec_of_z t.age_gap; dec_of_z t.p_same_layer;
    dec_of_z t.team_individuals ]

(* static_cast<unsigned>(std::log(n)), static_cast<unsigned>(std::pow(std::log2(n), 3)) with the same libm *)
let ln_floor (r : z) : z = z_of_int (int_of_float (log (float_of_int (int_of_z r))))
let cube_log2 (r : z) : z = z_of_int (int_of_float (Float.pow (Float.log2 (float_of_int (int_of_z r))) 3.0))

let process_tune () : string =
  findings := [];
  (try
    expect "TUNEM";
    let cls = next () in
    let st = match next () with "alps" -> TAlps | "de" -> TDe | _ -> TStd in
    let va = match next () with "dss" -> VDss | "holdout" -> VHoldout | _ -> VAsIs in
    let rows = next_z () in
    let terms = next_z () in
    let recon = next_int () = 1 in
    let k = match cls with "search" -> KSearch st | "ga" | "de" -> KGa st | _ -> KSrc (st, va, rows) in
    expect "U";
    let user = read_tenv () in
    expect "I";
    let impl = read_tenv () in
    let impl_valid = next_int () = 1 in
    let model = if recon then tune_rec ln_floor cube_log2 typeid_repaired k terms user
                else tune ln_floor cube_log2 typeid_repaired k terms user in
    (* oracles on the implementation's tuned environment *)
    if not (filled k impl) then add "X" 0 "tune_fills_every_open_parameter";
    if not (kept k user impl) then add "X" 0 "tune_keeps_user_settings";
    if user_wf user && is_valid false user && not impl_valid then begin
      if sizes_ok impl then add "X" 0 "tune_valid" else add "X" 0 "tune_valid_size_conflict"
    end;
    if is_valid true impl <> impl_valid then add "D" 0 "is_valid_model";
    if show_tenv model <> show_tenv impl then add "D" 0 ("tune_" ^ String.concat "_" (split_ws (show_tenv model)))
  with
  | Parse m -> add "R" (-1) ("parse_" ^ String.concat "_" (split_ws m))
  | Failure m -> add "R" (-1) ("failure_" ^ String.concat "_" (split_ws m)));
  match List.rev !findings with
  | [] -> "OK tune"
  | fs -> "FAIL tune | " ^ String.concat " " fs

let () =
  try
    while true do
      let line = input_line stdin in
      if String.length line >= 5 && String.sub line 0 5 = "TUNEM" then begin
        toks := Array.of_list (split_ws line); pos := 0;
        print_endline (process_tune ())
      end else print_endline (process line)
    done
  with End_of_file -> ()
