(* Model driver for the serialisation model (C11, C12).
   input lines:
     SSET k n (opcode arity param)*            store symbol set k and select it (no output)
     USE k                                     select symbol set k (no output)
     ELW 32|64                                 width of the elapsed-time reader of summary::load (no output)
     SAVE <type> <dump>                        -> <hex of the model's save>
     LOAD <type> <streamhex|-> <dump|FRESH>    -> <0|1> <dump of the target afterwards>
     PINNED <n0> <streamhex>                   -> OK|FAIL|OOB  (pinned population<i_ga>::load, checked form)
   types: H F MEP GA DE TEAM POPMEP POPGA POPDE POPTEAM SUMMEP SUMGA SUMDE DIST MAT
   dumps: see harness/h_serial.cc (same grammar). *)

(* ---- oracles: the floating-point text of libstdc++ / glibc ---- *)
let float_of_bits_z (x : z) : float = Int64.float_of_bits (int64_bits_of_z x)
let bits_z_of_float (f : float) : z = z_of_int64_bits (Int64.bits_of_float f)
let stream_of_string (s : string) : z list =
  List.init (String.length s) (fun i -> z_of_int (Char.code s.[i]))
let string_of_stream (l : z list) : string =
  let b = Buffer.create 256 in
  List.iter (fun c -> Buffer.add_char b (Char.chr ((int_of_z c) land 255))) l;
  Buffer.contents b

(* save_float_to_stream: scientific, precision 16 *)
let show17 (x : z) : z list = stream_of_string (Printf.sprintf "%.16e" (float_of_bits_z x))

let is_ws_i c = c = 32 || (c >= 9 && c <= 13)
(* num_get::_M_extract_float (C locale) followed by strtod with the
   whole-string check of __convert_to_v *)
let read_f (s : z list) : (z * z list) option =
  let rec skip = function c :: r when is_ws_i (int_of_z c) -> skip r | l -> l in
  let cur = ref (skip s) in
  let b = Buffer.create 32 in
  let peek () = match !cur with [] -> -1 | c :: _ -> int_of_z c in
  let adv () = match !cur with [] -> () | _ :: r -> cur := r in
  let c = peek () in
  if c = 43 || c = 45 then (Buffer.add_char b (Char.chr c); adv ());
  let found_mantissa = ref false in
  while peek () = 48 do
    if not !found_mantissa then (Buffer.add_char b '0'; found_mantissa := true);
    adv ()
  done;
  let found_dec = ref false and found_sci = ref false in
  let stop = ref false in
  while not !stop do
    let c = peek () in
    if c >= 48 && c <= 57 then (Buffer.add_char b (Char.chr c); found_mantissa := true; adv ())
    else if c = 46 && not !found_dec && not !found_sci then (Buffer.add_char b '.'; found_dec := true; adv ())
    else if (c = 101 || c = 69) && not !found_sci && !found_mantissa then begin
      Buffer.add_char b 'e'; found_sci := true; adv ();
      let c2 = peek () in
      if c2 = -1 then stop := true
      else if c2 = 43 || c2 = 45 then (Buffer.add_char b (Char.chr c2); adv ())
    end
    else stop := true
  done;
  let txt = Buffer.contents b in
  let re = Str.regexp "^[+-]?\\([0-9]+\\.?[0-9]*\\|\\.[0-9]+\\)\\(e[+-]?[0-9]+\\)?$" in
  if not (Str.string_match re txt 0) then None
  else
    let v = float_of_string txt in
    if v = infinity || v = neg_infinity then None else Some (bits_z_of_float v, !cur)

(* ---- hex <-> stream ---- *)
let stream_of_hex (h : string) : z list =
  if h = "-" then [] else
  List.init (String.length h / 2) (fun i -> z_of_int (int_of_string ("0x" ^ String.sub h (2 * i) 2)))
let hex_of_stream (l : z list) : string =
  if l = [] then "-" else
  String.concat "" (List.map (fun c -> Printf.sprintf "%02x" ((int_of_z c) land 255)) l)

(* ---- token reader for dumps ---- *)
let toks : string list ref = ref []
let next () = match !toks with [] -> failwith "dump: out of tokens" | t :: r -> toks := r; t
let nint () = int_of_string (next ())
let nhex () = z_of_hex (next ())
let ndec () = z_of_int (nint ())
let rec times n f = if n <= 0 then [] else let x = f () in x :: times (n - 1) f

let zhex x = hex_of_z x
let zdec x = dec_of_z x

let p_hash () = let a = nhex () in let b = nhex () in (a, b)
let s_hash (a, b) = zhex a ^ " " ^ zhex b
let p_fit () = let n = nint () in times n nhex
let s_list f l = String.concat " " (string_of_int (List.length l) :: List.map f l)
let s_fit l = s_list zhex l
let p_mep () =
  let age = nhex () in let cols = nhex () in let ng = nint () in
  let genes = times ng (fun () ->
    let op = nhex () in let par = nhex () in let na = nint () in
    let args = times na nhex in { g_op = op; g_par = par; g_args = args }) in
  let bi = nhex () in let bc = nhex () in let sg = p_hash () in
  { m_age = age; m_cols = cols; m_genes = genes; m_best = (bi, bc); m_sig = sg }
let s_mep m =
  String.concat " " ([zhex m.m_age; zhex m.m_cols; string_of_int (List.length m.m_genes)]
    @ List.map (fun g -> String.concat " " ([zhex g.g_op; zhex g.g_par; string_of_int (List.length g.g_args)]
                                           @ List.map zhex g.g_args)) m.m_genes
    @ [zhex (fst m.m_best); zhex (snd m.m_best); s_hash m.m_sig])
let p_vec elem () =
  let age = nhex () in let n = nint () in let g = times n elem in let sg = p_hash () in
  { v_age = age; v_genome = g; v_sig = sg }
let s_vec elem v = String.concat " " [zhex v.v_age; s_list elem v.v_genome; s_hash v.v_sig]
let p_team pi () = let n = nint () in let l = times n pi in let sg = p_hash () in { t_inds = l; t_sig = sg }
let s_team si t = String.concat " " [s_list si t.t_inds; s_hash t.t_sig]
let p_pop pi () = let nl = nint () in times nl (fun () -> let al = nhex () in let n = nint () in (al, times n pi))
let s_pop si p = s_list (fun (al, l) -> zhex al ^ " " ^ s_list si l) p
let p_sum pi () =
  let i = pi () in let f = p_fit () in let a = nhex () in
  let el = ndec () in let mu = nhex () in let cr = nhex () in let ge = nhex () in let li = nhex () in
  { su_sol = i; su_fit = f; su_acc = a;
    su_elapsed = el; su_mutations = mu; su_crossovers = cr; su_gen = ge; su_last_imp = li }
let s_sum si x =
  String.concat " " [si x.su_sol; s_fit x.su_fit; zhex x.su_acc;
                     zdec x.su_elapsed; zhex x.su_mutations; zhex x.su_crossovers; zhex x.su_gen; zhex x.su_last_imp]
let p_dist () =
  let c = nhex () in let m = nhex () in let mn = nhex () in let mx = nhex () in let m2 = nhex () in
  let n = nint () in let kv = times n (fun () -> let k = nhex () in let v = nhex () in (k, v)) in
  { d_count = c; d_mean = m; d_min = mn; d_max = mx; d_m2 = m2; d_seen = kv }
let s_dist d =
  String.concat " " [zhex d.d_count; zhex d.d_mean; zhex d.d_min; zhex d.d_max; zhex d.d_m2;
                     s_list (fun (k, v) -> zhex k ^ " " ^ zhex v) d.d_seen]
let p_mat () = let c = nhex () in let n = nint () in { mx_cols = c; mx_data = times n ndec }
let s_mat m = zhex m.mx_cols ^ " " ^ s_list zdec m.mx_data

let sset : symset ref = ref []
(* width of the integer summary::load reads the elapsed time into (ELW 32|64; read off the source by the check) *)
(* does distribution::save refuse non-finite statistics (DSR 0|1; read off the source by the check) *)
let dist_refuses = ref false
let elapsed_reader : (z list -> (z * z list) option) ref = ref read_i32
let slots : (int, symset) Hashtbl.t = Hashtbl.create 4

(* a persistable type: parser of dumps, printer, save, load, default *)
type 'a ty = { pd : unit -> 'a; sd : 'a -> string; sv : 'a -> z list; em : 'a -> bool;
               ld : z list -> 'a -> (bool * 'a) * z list; df : unit -> 'a }

let ty_mep = { pd = p_mep; sd = s_mep; sv = (fun m -> mep_save show17 !sset m);
               ld = (fun s t -> mep_load read_f !sset s t); df = (fun () -> mep_default); em = mep_empty }
let ty_ga = { pd = p_vec ndec; sd = s_vec zdec; sv = ga_save; ld = ga_load; df = (fun () -> vec_default); em = vec_empty }
let ty_de = { pd = p_vec nhex; sd = s_vec zhex; sv = de_save show17; ld = de_load read_f; df = (fun () -> vec_default); em = vec_empty }
let ty_team i = { pd = p_team i.pd; sd = s_team i.sd; sv = team_save i.sv;
                  ld = (fun s t -> team_load i.ld (i.df ()) s t); df = (fun () -> team_default); em = (fun t -> t.t_inds = []) }
let ty_pop i = { pd = p_pop i.pd; sd = s_pop i.sd; sv = pop_save i.sv;
                 ld = (fun s t -> pop_load i.ld (i.df ()) s t); df = (fun () -> []); em = (fun _ -> false) }
let ty_sum i = { pd = p_sum i.pd; sd = s_sum i.sd; sv = summary_save show17 i.sv i.em;
                 ld = (fun s t -> summary_load read_f i.ld (i.df ()) !elapsed_reader s t); em = (fun _ -> false);
                 df = (fun () -> { su_sol = i.df (); su_fit = []; su_acc = minus_one;
                                   su_elapsed = Z0; su_mutations = Z0; su_crossovers = Z0;
                                   su_gen = Z0; su_last_imp = Z0 }) }
let ty_hash = { pd = p_hash; sd = s_hash; sv = hash_save; ld = hash_load; df = (fun () -> (Z0, Z0)); em = (fun _ -> false) }
let ty_fit = { pd = p_fit; sd = s_fit; sv = fit_save show17; ld = fit_load read_f; df = (fun () -> []); em = (fun _ -> false) }
let ty_dist = { pd = p_dist; sd = s_dist; sv = (fun d -> if dist_save_ok d || not !dist_refuses then dist_save show17 d else stream_of_string "REFUSED"); ld = dist_load read_f; em = (fun _ -> false);
                df = (fun () -> { d_count = Z0; d_mean = Z0; d_min = Z0; d_max = Z0; d_m2 = Z0; d_seen = [] }) }
let ty_mat = { pd = p_mat; sd = s_mat; sv = matrix_save; ld = matrix_load; em = (fun _ -> false);
               df = (fun () -> { mx_cols = Z0; mx_data = [] }) }

let run_ty (type a) (t : a ty) (cmd : string) : string =
  match cmd with
  | "SAVE" -> let x = t.pd () in hex_of_stream (t.sv x)
  | "LOAD" ->
      let s = stream_of_hex (next ()) in
      let tgt = (match !toks with "FRESH" :: _ -> t.df () | _ -> t.pd ()) in
      let ((ok, tgt'), _) = t.ld s tgt in
      (if ok then "1 " else "0 ") ^ t.sd tgt'
  | _ -> "BADCMD"

let dispatch cmd tyname =
  match tyname with
  | "H" -> run_ty ty_hash cmd
  | "F" -> run_ty ty_fit cmd
  | "MEP" -> run_ty ty_mep cmd
  | "GA" -> run_ty ty_ga cmd
  | "DE" -> run_ty ty_de cmd
  | "TEAM" -> run_ty (ty_team ty_mep) cmd
  | "POPMEP" -> run_ty (ty_pop ty_mep) cmd
  | "POPGA" -> run_ty (ty_pop ty_ga) cmd
  | "POPDE" -> run_ty (ty_pop ty_de) cmd
  | "POPTEAM" -> run_ty (ty_pop (ty_team ty_mep)) cmd
  | "SUMMEP" -> run_ty (ty_sum ty_mep) cmd
  | "SUMGA" | "SUMGAX" -> run_ty (ty_sum ty_ga) cmd
  | "SUMDE" -> run_ty (ty_sum ty_de) cmd
  | "DIST" | "DISTX" -> run_ty ty_dist cmd
  | "MAT" -> run_ty ty_mat cmd
  | _ -> "BADTYPE"

let () =
  try
    while true do
      let line = input_line stdin in
      (try
        toks := split_ws line;
        match next () with
        | "SSET" ->
            let k = nint () in
            let n = nint () in
            let ss = times n (fun () -> let op = nhex () in let ar = nint () in let pa = nint () in
                                        { sy_opcode = op; sy_arity = nat_of_int ar; sy_param = (pa <> 0) }) in
            Hashtbl.replace slots k ss; sset := ss
        | "USE" -> sset := Hashtbl.find slots (nint ())
        | "DSR" -> dist_refuses := (nint () <> 0)
        | "ELW" -> elapsed_reader := (if nint () = 64 then read_i64 else read_i32)
        | "PINNED" ->
            let n0 = nint () in
            let s = stream_of_hex (next ()) in
            let fresh = [ (z_of_int n0, List.init n0 (fun _ -> vec_default)) ] in
            (match pop_load_pinned ga_load fresh s [] with
             | POk (_, _) -> print_endline "OK"
             | PFail -> print_endline "FAIL"
             | POob -> print_endline "OOB")
        | ("SAVE" | "LOAD") as cmd -> let ty = next () in print_endline (dispatch cmd ty)
        | _ -> print_endline "BADLINE"
      with Failure m -> print_endline ("ERR " ^ m))
    done
  with End_of_file -> ()
