(* Model driver for the dataset import (C09, C10).
   input (one case per line):
     csv  <variant> <texthex|-> <delim> <hdr -1|0|1> <trim 0|1> <out|-1> <filter>
     prob <variant> <texthex|-> <strong 0|1>
     xrff <variant> <A-|A=attrs> <I-|I=instances> <filter>     (the DOM as seen by the reader)
     xrff <variant> ERR ERR <filter>                           (tinyxml2 reported a parse error)
     line <texthex|-> <delim> <trim> <keep>                    (parse_line alone)
   variant: fixed | pinned.   filter: N | E:<k>:<hex> (reject when field k equals) | D:<k> (drop field k)
   output: one canonical line, same grammar as harness/h_csv.cc *)

let ztab = Array.init 256 z_of_int
let bytes_of_hex (h : string) : z list =
  if h = "-" then [] else
  List.init (String.length h / 2) (fun i -> ztab.(int_of_string ("0x" ^ String.sub h (2 * i) 2)))
let hex_of_bytes (b : z list) : string =
  if b = [] then "-" else String.concat "" (List.map (fun c -> Printf.sprintf "%02x" (int_of_z c)) b)
let string_of_bytes (b : z list) : string =
  let buf = Buffer.create 16 in
  List.iter (fun c -> Buffer.add_char buf (Char.chr (int_of_z c land 255))) b;
  Buffer.contents buf

(* ---- oracles: strtod / stod / stoi of the C library.  OCaml's float_of_string
   hands decimal text to strtod and demands that it consumes everything; the
   prefix strtod would consume is therefore the longest prefix accepted. *)
let c_str (s : string) = match String.index_opt s '\000' with Some i -> String.sub s 0 i | None -> s
let is_c_space c = c = ' ' || (c >= '\t' && c <= '\r')
let clean (s : string) = not (String.contains s '_')
let fos (s : string) : float option =
  if s = "" || not (clean s) then None
  else
    (* OCaml extensions that strtod does not have *)
    let last = s.[String.length s - 1] in
    if is_c_space last then None else float_of_string_opt s
let strtod_prefix (s0 : string) : (float * int) option =
  let s = c_str s0 in
  let n = String.length s in
  let rec go k = if k = 0 then None else match fos (String.sub s 0 k) with Some f -> Some (f, k) | None -> go (k - 1) in
  go n
let lower s = String.lowercase_ascii s
let c_trim (s : string) : string =
  let n = String.length s in
  let i = ref 0 and j = ref n in
  while !i < n && is_c_space s.[!i] do incr i done;
  while !j > !i && is_c_space s.[!j - 1] do decr j done;
  String.sub s !i (!j - !i)
(* vita::is_number / pocket_csv::detail::is_number: trim, then strtod must consume everything *)
let is_number_str (s : string) : bool =
  let s = c_str (c_trim s) in
  match strtod_prefix s with Some (_, k) -> k = String.length s && k > 0 | None -> false
let body_after_sign (s : string) =
  let i = ref 0 in
  let n = String.length s in
  while !i < n && is_c_space s.[!i] do incr i done;
  if !i < n && (s.[!i] = '+' || s.[!i] = '-') then incr i;
  String.sub s !i (n - !i)
let has_nonzero_digit (s : string) =
  (* a significant digit other than 0 before the exponent *)
  let b = lower (body_after_sign s) in
  let hex = String.length b >= 2 && String.sub b 0 2 = "0x" in
  let stop = if hex then 'p' else 'e' in
  let b = if hex then String.sub b 2 (String.length b - 2) else b in
  let r = ref false in
  (try String.iter (fun c -> if c = stop then raise Exit;
                     if (c >= '1' && c <= '9') || (hex && c >= 'a' && c <= 'f') then r := true) b
   with Exit -> ());
  !r
let stod_str (s : string) : conv =
  match strtod_prefix s with
  | None -> CvInvalid
  | Some (f, k) ->
    let lit = lower (body_after_sign (String.sub (c_str s) 0 k)) in
    let named = String.length lit >= 3 && (String.sub lit 0 3 = "inf" || String.sub lit 0 3 = "nan") in
    if named then
      CvOk (if Float.is_nan f then z_of_hex "7ff8000000000000" else z_of_int64_bits (Int64.bits_of_float f))
    else if Float.is_integer f && Float.abs f = Float.infinity then CvRange
    else if Float.abs f = Float.infinity then CvRange
    else
      let bits = Int64.bits_of_float f in
      let expo = Int64.to_int (Int64.shift_right_logical (Int64.logand bits 0x7ff0000000000000L) 52) in
      let hex = String.length lit >= 2 && String.sub lit 0 2 = "0x" in
      if expo = 0 && has_nonzero_digit lit && not (hex && f <> 0.0) then CvRange   (* ERANGE on underflow *)
      else CvOk (z_of_int64_bits bits)
let stoi_str (s0 : string) : conv =
  let s = c_str s0 in
  let n = String.length s in
  let i = ref 0 in
  while !i < n && is_c_space s.[!i] do incr i done;
  let neg = !i < n && s.[!i] = '-' in
  if !i < n && (s.[!i] = '+' || s.[!i] = '-') then incr i;
  let start = !i in
  let acc = ref 0 in
  let big = ref false in
  while !i < n && s.[!i] >= '0' && s.[!i] <= '9' do
    acc := !acc * 10 + (Char.code s.[!i] - 48);
    if !acc > 1 lsl 40 then (big := true; acc := 1 lsl 40);
    incr i
  done;
  if !i = start then CvInvalid
  else
    let v = if neg then - !acc else !acc in
    if !big || v > 2147483647 || v < -2147483648 then CvRange else CvOk (z_of_int v)

let o_is_number (b : z list) = is_number_str (string_of_bytes b)
let o_stod (b : z list) = stod_str (string_of_bytes b)
let o_stoi (b : z list) = stoi_str (string_of_bytes b)

(* ---- printing *)
let show_value (v : value) : string =
  match v with
  | VVoid -> "v"
  | VInt z -> "i:" ^ dec_of_z z
  | VDouble b -> "d:" ^ hex_of_z b
  | VString s -> "s:" ^ (if s = [] then "" else hex_of_bytes s)
let show_dom = function DVoid -> "0" | DInt -> "1" | DDouble -> "2" | DString -> "3"
let show_exn = function
  | E_invalid_argument -> "invalid_argument" | E_out_of_range -> "out_of_range"
  | E_insufficient_data -> "insufficient_data" | E_data_format -> "data_format" | E_bad_variant -> "bad_variant_access"
let show_site = function
  | S_rotate_csv -> "rotate_csv" | S_rotate_xrff -> "rotate_xrff" | S_build_rec -> "build_rec"
  | S_build_cols -> "build_cols" | S_toex_rec -> "toex_rec" | S_toex_cols -> "toex_cols" | S_toex_front -> "toex_front"
  | S_hh_types -> "hh_types" | S_hh_header -> "hh_header" | S_hh_row -> "hh_row" | S_term_cat -> "term_cat"
  | S_fetch_var -> "fetch_var" | S_valid_front -> "valid_front"
let cat l = String.concat "" l
let show_df (df : dataframe) : string =
  "COLS=" ^ cat (List.map (fun c -> hex_of_bytes c.c_name ^ ":" ^ show_dom c.c_domain ^ ":"
                                   ^ cat (List.map (fun s -> hex_of_bytes s ^ ",") c.c_states) ^ ";") df.columns)
  ^ " CLS=" ^ cat (List.map (fun (l, i) -> hex_of_bytes l ^ "=" ^ dec_of_z i ^ ",") df.classes)
  ^ " NAMES=" ^ cat (List.mapi (fun i _ -> hex_of_bytes (class_name df.classes (z_of_int i)) ^ ",") df.classes)
  ^ " EX=" ^ cat (List.map (fun e -> show_value e.e_output ^ "|" ^ cat (List.map (fun v -> show_value v ^ ",") e.e_input) ^ ";")
                    df.dataset)
  ^ " VALID=" ^ (match is_valid df with Ok true -> "1" | Ok false -> "0" | _ -> "X")

let parse_filter (t : string) : filter_t =
  match String.split_on_char ':' t with
  | ["N"] -> no_filter
  | ["E"; k; h] ->
    let k = int_of_string k and b = bytes_of_hex h in
    (fun r -> match List.nth_opt r k with Some f when f = b -> None | _ -> Some r)
  | ["D"; k] ->
    let k = int_of_string k in
    (fun r -> Some (List.filteri (fun i _ -> i <> k) r))
  | _ -> failwith "filter"

(* the output index is a size_t; the model's nat is unary: any index >= 100000 behaves like 100000 for the records
   of the check (fewer than 100000 fields), because the index is only compared with record sizes *)
let nat_of_out (s : string) : nat =
  let n = if String.length s > 6 then 100000 else min 100000 (int_of_string s) in
  let rec go k acc = if k = 0 then acc else go (k - 1) (S acc) in
  go n O
let uint_max_nat : nat = nat_of_out "4294967295"

let variant_of = function "pinned" -> pinned_v | _ -> fixed_v

(* terminator-style lists: every item is followed by its separator *)
let items (sep : char) (s : string) : string list =
  match List.rev (String.split_on_char sep s) with
  | "" :: r -> List.rev r
  | _ -> failwith ("unterminated list: " ^ s)

let parse_attr (t : string) : xattr =
  match String.split_on_char ':' t with
  | [n; c; ty; ls] -> { xa_name = bytes_of_hex n; xa_class_yes = (c = "1"); xa_type = bytes_of_hex ty;
                        xa_labels = List.map bytes_of_hex (items ',' ls) }
  | _ -> failwith "attr"

let dom_of_tokens (a : string) (i : string) : xdom =
  let strip2 s = String.sub s 2 (String.length s - 2) in
  { x_attributes = (if a = "A-" then None else Some (List.map parse_attr (items ';' (strip2 a))));
    x_instances = (if i = "I-" then None
                   else Some (List.map (fun t -> List.map bytes_of_hex (items ',' t)) (items ';' (strip2 i)))) }

(* c/<texthex>/<delim>/<hdr>/<trim>/<out>  |  x/<A>/<I>  |  x/ERR/ERR *)
let parse_step (st : string) : st_step =
  match String.split_on_char '/' st with
  | ["c"; text; delim; hdr; trim; out] ->
    let d = { delimiter = z_of_int (int_of_string delim); trim_ws = (trim = "1");
              has_header = (match hdr with "-1" -> GUESS_HEADER | "0" -> NO_HEADER | _ -> HAS_HEADER);
              quoting = REMOVE_QUOTES } in
    StCsv (bytes_of_hex text, { p_dialect = d; p_filter = no_filter;
                                p_output_index = (if out = "-1" then None else Some (nat_of_out out)) })
  | ["x"; "ERR"; "ERR"] -> StXrff (None, no_filter)
  | ["x"; a; i] -> StXrff (Some (dom_of_tokens a i), no_filter)
  | _ -> failwith "step"

let result_line (r : 'a res) (ok : 'a -> string) : string =
  match r with
  | Ok x -> ok x
  | Exn e -> "EXN " ^ show_exn e
  | OOB s -> "OOB " ^ show_site s

let () =
  try
    while true do
      let line = input_line stdin in
      (try
        match split_ws line with
        | ["csv"; v; text; delim; hdr; trim; out; flt] ->
          let d = { delimiter = z_of_int (int_of_string delim); trim_ws = (trim = "1");
                    has_header = (match hdr with "-1" -> GUESS_HEADER | "0" -> NO_HEADER | _ -> HAS_HEADER);
                    quoting = REMOVE_QUOTES } in
          let p = { p_dialect = d; p_filter = parse_filter flt;
                    p_output_index = (if out = "-1" then None else Some (nat_of_out out)) } in
          let r = read_csv o_is_number o_stod o_stoi (variant_of v) (bytes_of_hex text) p in
          print_endline (result_line r (fun df -> "OK ret=" ^ string_of_int (List.length df.dataset) ^ " " ^ show_df df))
        | ["prob"; v; text; strong] ->
          let d = { delimiter = Z0; trim_ws = false; has_header = GUESS_HEADER; quoting = REMOVE_QUOTES } in
          let p = { p_dialect = d; p_filter = no_filter; p_output_index = Some O } in
          let r = read_csv o_is_number o_stod o_stoi (variant_of v) (bytes_of_hex text) p in
          print_endline (result_line r (fun df ->
            let base = "OK ret=" ^ string_of_int (List.length df.dataset) ^ " " ^ show_df df in
            match setup_terminals (variant_of v) df.columns (strong = "1") with
            | Ok vars ->
              let first3 = List.filteri (fun i _ -> i < 3) df.dataset in
              base ^ " VARS=" ^ cat (List.map (fun vi -> hex_of_bytes vi.v_name ^ ":" ^ string_of_int (int_of_nat vi.v_id)
                                                         ^ ":" ^ dec_of_z vi.v_category ^ ";") vars)
              ^ " RUN=" ^ cat (List.map (fun e -> cat (List.map (fun vi ->
                                 (match run_variable vi e with Ok x -> show_value x | OOB s -> "OOB" | Exn _ -> "EXN") ^ ",") vars) ^ ";")
                                first3)
            | Exn e -> "EXN " ^ show_exn e        (* the src_problem constructor throws *)
            | OOB s -> base ^ " TERM-OOB " ^ show_site s))
        | ["xrff"; v; a; i; flt] ->
          if a = "ERR" then print_endline "EXN data_format" else
          let strip2 s = String.sub s 2 (String.length s - 2) in
          let dom = { x_attributes = (if a = "A-" then None else Some (List.map parse_attr (items ';' (strip2 a))));
                      x_instances = (if i = "I-" then None
                                     else Some (List.map (fun t -> List.map bytes_of_hex (items ',' t)) (items ';' (strip2 i)))) } in
          let r = read_xrff o_is_number o_stod o_stoi (variant_of v) dom (parse_filter flt) in
          print_endline (result_line r (fun (df, n) -> "OK ret=" ^ string_of_int (int_of_nat n) ^ " " ^ show_df df))
        | "hist" :: v :: _k :: steps ->
          (* reads on one frame, continuing after a read that throws (state left behind: Csv/StateDefs.v) *)
          let rec go df steps acc =
            match steps with
            | [] -> "HIST S=" ^ acc ^ " " ^ show_df df
            | st :: rest ->
              let (df', out) = step_st o_is_number o_stod o_stoi uint_max_nat (variant_of v) df (parse_step st) in
              (match out with
               | Ok n -> go df' rest (acc ^ "ok" ^ string_of_int (int_of_nat n) ^ ",")
               | Exn e -> go df' rest (acc ^ "exn:" ^ show_exn e ^ ",")
               | OOB o -> "HIST S=" ^ acc ^ "OOB:" ^ show_site o ^ ", STOP") in
          print_endline (go empty_df steps "")
        | "probh" :: v :: _k :: ops ->
          let vr = variant_of v in
          let show_prob acc (pr : problem) =
            let df = pr.training in
            let first3 = List.filteri (fun i _ -> i < 3) df.dataset in
            "PROBH S=" ^ acc ^ " " ^ show_df df
            ^ " VARS=" ^ cat (List.map (fun vi -> hex_of_bytes vi.v_name ^ ":" ^ string_of_int (int_of_nat vi.v_id) ^ ";") pr.p_vars)
            ^ " NSYM=" ^ string_of_int (int_of_nat pr.p_other)
            ^ " VARIABLES=" ^ string_of_int (int_of_nat (prob_variables pr))
            ^ " CLASSES=" ^ string_of_int (int_of_nat (prob_classes pr))
            ^ " RUN=" ^ cat (List.map (fun e -> cat (List.map (fun vi ->
                               (match run_variable vi e with Ok x -> show_value x | _ -> "OOB") ^ ",") pr.p_vars) ^ ";") first3) in
          let rec go (pr : problem option) ops acc =
            match ops with
            | [] -> (match pr with None -> "PROBH S=" ^ acc ^ " NONE" | Some p -> show_prob acc p)
            | op :: rest ->
              (match pr, String.split_on_char '/' op with
               | _, ["n"; text; strong] ->
                 (match prob_construct o_is_number o_stod o_stoi vr (bytes_of_hex text) (strong = "1") with
                  | Ok p -> go (Some p) rest (acc ^ "ok" ^ string_of_int (List.length p.training.dataset) ^ ",")
                  | Exn e -> go None rest (acc ^ "exn:" ^ show_exn e ^ ",")
                  | OOB o -> "PROBH S=" ^ acc ^ "OOB:" ^ show_site o ^ ", STOP")
               | None, _ -> go None rest (acc ^ "skip,")
               | Some p, ["s"; strong] ->
                 let (p', out) = prob_setup_symbols vr p (strong = "1") in
                 (match out with
                  | Ok n -> go (Some p') rest (acc ^ "ok" ^ string_of_int (int_of_nat n) ^ ",")
                  | Exn e -> go (Some p') rest (acc ^ "exn:" ^ show_exn e ^ ",")
                  | OOB o -> "PROBH S=" ^ acc ^ "OOB:" ^ show_site o ^ ", STOP")
               | Some p, _ ->
                 let (p', out) =
                   (match parse_step (if op.[0] = 'r' then "c" ^ String.sub op 1 (String.length op - 1) else op) with
                    | StCsv (text, prm) -> prob_read_csv o_is_number o_stod o_stoi vr p text prm
                    | StXrff (dom, _) -> prob_read_xrff o_is_number o_stod o_stoi uint_max_nat vr p dom) in
                 (match out with
                  | Ok n -> go (Some p') rest (acc ^ "ok" ^ string_of_int (int_of_nat n) ^ ",")
                  | Exn e -> go (Some p') rest (acc ^ "exn:" ^ show_exn e ^ ",")
                  | OOB o -> "PROBH S=" ^ acc ^ "OOB:" ^ show_site o ^ ", STOP")) in
          print_endline (go None ops "")
        | ["line"; text; delim; trim; keep] ->
          let d = { delimiter = z_of_int (int_of_string delim); trim_ws = (trim = "1"); has_header = NO_HEADER;
                    quoting = (if keep = "1" then KEEP_QUOTES else REMOVE_QUOTES) } in
          print_endline ("REC=" ^ cat (List.map (fun f -> hex_of_bytes f ^ ",") (parse_line d (bytes_of_hex text))))
        | _ -> print_endline "BADLINE"
      with Failure m -> print_endline ("BADLINE " ^ m))
    done
  with End_of_file -> ()
