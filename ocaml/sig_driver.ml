(* Model driver for C03 (signatures).  The first line is the symbol table
   printed by the harness (SYMS k:opcode:cat:parametric:argcats:set ...);
   every other line is one scenario (see checks/c03.py); one output line per
   scenario: records  <op> <ret> raw=<lo>:<hi> h=<lo>:<hi>  separated by " ; ".
     raw  the cached signature field of the model state
     h    the hash of the model's current content computed from scratch *)
let z_of_n = function N0 -> Z0 | Npos p -> Zpos p
let n_of_z = function Z0 -> N0 | Zpos p -> Npos p | Zneg _ -> failwith "n_of_z"
let hex_of_n x = hex_of_z (z_of_n x)
let n_of_hex s = n_of_z (z_of_hex s)
let show_hash ((a, b) : hash) = hex_of_n a ^ ":" ^ hex_of_n b
let show_hash_opt = function Some h -> show_hash h | None -> "NONE"

let float_of_f64 f = Int64.float_of_bits (int64_bits_of_z (F64.to_bits f))
(* utility.h almost_equal(v1, v2, e = 0.00001) *)
let almost_equal v1 v2 =
  let diff = abs_float (v1 -. v2) in
  if diff < 2.0 *. epsilon_float then true
  else
    let largest = max (abs_float v1) (abs_float v2) in
    diff <= largest *. 0.00001
let par_close a b = almost_equal (float_of_f64 a) (float_of_f64 b)

let split_on c s = String.split_on_char c s
let syms : (int, sym) Hashtbl.t = Hashtbl.create 64

let load_syms toks =
  List.iter (fun t ->
    match split_on ':' t with
    | [k; opc; cat; par; args; _set] ->
        let argcats = if args = "-" then [] else List.map (fun a -> nat_of_int (int_of_string a)) (split_on ',' args) in
        Hashtbl.replace syms (int_of_string k)
          (mk_sym (z_of_int (int_of_string opc)) (nat_of_int (int_of_string cat)) argcats (par = "1"))
    | _ -> failwith "sym") toks

let parse_gene t =
  match split_on ':' t with
  | [k; par; args] ->
      let s = Hashtbl.find syms (int_of_string k) in
      let p = if par = "-" then F64.zero else F64.of_bits (z_of_hex par) in
      let a = if args = "-" then [] else List.map (fun a -> nat_of_int (int_of_string a)) (split_on ',' args) in
      mk_gene s p a
  | _ -> failwith "gene"

let parse_locus r c = mk_locus (nat_of_int (int_of_string r)) (nat_of_int (int_of_string c))

(* cell token  r,c=gene *)
let parse_cell t =
  match split_on '=' t with
  | [rc; g] -> (match split_on ',' rc with [r; c] -> (parse_locus r c, parse_gene g) | _ -> failwith "cell")
  | _ -> failwith "cell"

let build_genome ncats rows bi bc cells =
  List.fold_left (fun g (l, ge) -> put_gene g l ge)
    (empty_genome (nat_of_int rows) (nat_of_int ncats) (parse_locus bi bc)) cells

(* content  bi,bc/r,c=gene/... *)
let parse_content ncats rows s =
  match split_on '/' s with
  | b :: cells ->
      (match split_on ',' b with
       | [bi; bc] -> build_genome ncats rows bi bc (List.map parse_cell cells)
       | _ -> failwith "content")
  | _ -> failwith "content"

let sections toks =
  let rec go acc cur = function
    | [] -> List.rev (List.rev cur :: acc)
    | "|" :: r -> go (List.rev cur :: acc) [] r
    | t :: r -> go acc (t :: cur) r in
  go [] [] toks

let rec take k l = if k = 0 then ([], l) else match l with x :: r -> let (a, b) = take (k - 1) r in (x :: a, b) | [] -> failwith "take"

let rec parse_loci k l =
  if k = 0 then ([], l) else
    match l with r :: c :: rest -> let (a, b) = parse_loci (k - 1) rest in (parse_locus r c :: a, b) | _ -> failwith "loci"
let rec parse_cands k l =
  if k = 0 then ([], l) else
    match l with r :: c :: g :: rest -> let (a, b) = parse_cands (k - 1) rest in ((parse_locus r c, parse_gene g) :: a, b)
               | _ -> failwith "cands"

let rec_line op ret raw h = Printf.sprintf "%s %s raw=%s h=%s" op ret (show_hash raw) (show_hash_opt h)

(* ------------------------------------------------------------------ MEP *)
let run_mep sec =
  match sec with
  | [[_; ncats; rows]; bx; by; ops] ->
      let ncats = int_of_string ncats and rows = int_of_string rows in
      let mk = function bi :: bc :: cells -> clear (build_genome ncats rows bi bc (List.map parse_cell cells)) | _ -> failwith "mk" in
      let x = ref (mk bx) and y = ref (mk by) in
      let out = Buffer.create 256 in
      let emit op ret = Buffer.add_string out (rec_line op ret (!x).cache (hash_mep (!x).content)) in
      emit "INIT" "-";
      let step op ret o =
        match mep_step par_close !x o with
        | Some x' -> x := x'; Buffer.add_string out " ; "; emit op ret; true
        | None -> Buffer.add_string out " ; UB"; false in
      let rec go = function
        | [] -> ()
        | "S" :: r ->
            (match signature hash_mep !x with
             | Some (h, x') -> x := x'; Buffer.add_string out " ; "; emit "S" (show_hash h); go r
             | None -> Buffer.add_string out " ; UB")
        | "SY" :: r ->
            (match signature hash_mep !y with
             | Some (_, y') -> y := y'; Buffer.add_string out " ; "; emit "SY" "-"; go r
             | None -> Buffer.add_string out " ; UB")
        | "R" :: rr :: c :: g :: r -> if step "R" "-" (MReplace (parse_locus rr c, parse_gene g)) then go r
        | "B" :: rr :: c :: r -> if step "B" "-" (MGetBlock (parse_locus rr c)) then go r
        | "D" :: row :: r ->
            let (gs, r) = take ncats r in
            if step "D" "-" (MDestroyBlock (nat_of_int (int_of_string row), List.map parse_gene gs)) then go r
        | "M" :: k :: r ->
            let (cands, r) = parse_cands (int_of_string k) r in
            (match mep_mutation par_close !x cands with
             | Some (x', n) -> x := x'; Buffer.add_string out " ; "; emit "M" ("n=" ^ string_of_int (int_of_nat n)); go r
             | None -> Buffer.add_string out " ; UB")
        | "X" :: lhs :: b :: k :: r ->
            let (ls, r) = parse_loci (int_of_string k) r in
            if step "X" "-" (MCrossover (!y, lhs = "1", b = "1", ls)) then go r
        | "C" :: r ->
            (* the model computes cse itself (C02's cse_genome with the byte-order comparator) *)
            (match cse_bits (!x).content with
             | Some g' -> if step "C" "-" (MCse g') then go r
             | None -> Buffer.add_string out " ; UB")
        | "L" :: "0" :: r -> if step "L" "ok=0" (MLoad None) then go r
        | "L" :: "1" :: content :: r -> if step "L" "ok=1" (MLoad (Some (parse_content ncats rows content))) then go r
        | "A" :: r -> if step "A" "-" (MAssign !y) then go r
        | "I" :: rr :: c :: g :: r -> if step "I" "done=1" (MIterWrite (parse_locus rr c, parse_gene g)) then go r
        | t :: _ -> failwith ("mep op " ^ t) in
      go ops;
      Buffer.contents out
  | _ -> "BADLINE"

(* ---------------------------------------------------------------- GA / DE *)
let parse_ints s = if s = "-" then [] else List.map (fun t -> z_of_int (int_of_string t)) (split_on ',' s)
let parse_hexes s = if s = "-" then [] else List.map n_of_hex (split_on ',' s)

let run_ga sec =
  match sec with
  | [[_; _n]; vx; vy; ops] ->
      let x = ref (clear (List.map (fun t -> z_of_int (int_of_string t)) vx))
      and y = ref (clear (List.map (fun t -> z_of_int (int_of_string t)) vy)) in
      let out = Buffer.create 256 in
      let emit op ret = Buffer.add_string out (rec_line op ret (!x).cache (hash_ga (!x).content)) in
      emit "INIT" "-";
      let step op ret o =
        match iga_step !x o with
        | Some x' -> x := x'; Buffer.add_string out " ; "; emit op ret; true
        | None -> Buffer.add_string out " ; UB"; false in
      let rec go = function
        | [] -> ()
        | "S" :: r ->
            (match signature hash_ga !x with
             | Some (h, x') -> x := x'; Buffer.add_string out " ; "; emit "S" (show_hash h); go r
             | None -> Buffer.add_string out " ; UB")
        | "SY" :: r ->
            (match signature hash_ga !y with
             | Some (_, y') -> y := y'; Buffer.add_string out " ; "; emit "SY" "-"; go r
             | None -> Buffer.add_string out " ; UB")
        | "W" :: i :: v :: r -> if step "W" "-" (GIndexWrite (nat_of_int (int_of_string i), z_of_int (int_of_string v))) then go r
        | "M" :: k :: r ->
            let rec cands k l = if k = 0 then ([], l) else
                match l with i :: v :: rest -> let (a, b) = cands (k - 1) rest in
                  ((nat_of_int (int_of_string i), z_of_int (int_of_string v)) :: a, b) | _ -> failwith "gacands" in
            let (cs, r) = cands (int_of_string k) r in
            (match iga_mutation !x cs with
             | Some (x', n) -> x := x'; Buffer.add_string out " ; "; emit "M" ("n=" ^ string_of_int (int_of_nat n)); go r
             | None -> Buffer.add_string out " ; UB")
        | "X" :: lhs :: c1 :: c2 :: r ->
            if step "X" "-" (GCrossover (!y, lhs = "1", nat_of_int (int_of_string c1), nat_of_int (int_of_string c2))) then go r
        | "L" :: "0" :: r -> if step "L" "ok=0" (GLoad None) then go r
        | "L" :: "1" :: v :: r -> if step "L" "ok=1" (GLoad (Some (parse_ints v))) then go r
        | "A" :: r -> if step "A" "-" (GAssign !y) then go r
        | "I" :: i :: v :: r -> if step "I" "-" (GIterWrite (nat_of_int (int_of_string i), z_of_int (int_of_string v))) then go r
        | t :: _ -> failwith ("ga op " ^ t) in
      go ops;
      Buffer.contents out
  | _ -> "BADLINE"

let run_de sec =
  match sec with
  | [[_; _n]; vx; vy; ops] ->
      let x = ref (clear (List.map n_of_hex vx)) and y = ref (clear (List.map n_of_hex vy)) in
      let out = Buffer.create 256 in
      let emit op ret = Buffer.add_string out (rec_line op ret (!x).cache (hash_de (!x).content)) in
      emit "INIT" "-";
      let step op ret o =
        match ide_step true !x o with
        | Some x' -> x := x'; Buffer.add_string out " ; "; emit op ret; true
        | None -> Buffer.add_string out " ; UB"; false in
      let rec go = function
        | [] -> ()
        | "S" :: r ->
            (match signature hash_de !x with
             | Some (h, x') -> x := x'; Buffer.add_string out " ; "; emit "S" (show_hash h); go r
             | None -> Buffer.add_string out " ; UB")
        | "SY" :: r ->
            (match signature hash_de !y with
             | Some (_, y') -> y := y'; Buffer.add_string out " ; "; emit "SY" "-"; go r
             | None -> Buffer.add_string out " ; UB")
        | "W" :: i :: v :: r -> if step "W" "-" (DIndexWrite (nat_of_int (int_of_string i), n_of_hex v)) then go r
        | "V" :: v :: r -> if step "V" "-" (DAssignVector (parse_hexes v)) then go r
        | "X" :: v :: r -> if step "X" "-" (DCrossover (!y, parse_hexes v)) then go r
        | "L" :: "0" :: r -> if step "L" "ok=0" (DLoad None) then go r
        | "L" :: "1" :: v :: r -> if step "L" "ok=1" (DLoad (Some (parse_hexes v))) then go r
        | "A" :: r -> if step "A" "-" (DAssign !y) then go r
        | "I" :: i :: v :: r -> if step "I" "-" (DIterWrite (nat_of_int (int_of_string i), n_of_hex v)) then go r
        | t :: _ -> failwith ("de op " ^ t) in
      go ops;
      Buffer.contents out
  | _ -> "BADLINE"

(* ----------------------------------------------------------------- TEAM *)
let split_members toks =
  let rec go acc cur = function
    | [] -> List.rev (List.rev cur :: acc)
    | "@" :: r -> go (List.rev cur :: acc) [] r
    | t :: r -> go acc (t :: cur) r in
  go [] [] toks

let run_team sec =
  match sec with
  | [[_; _k; rows]; mx; my; ops] ->
      let rows = int_of_string rows in
      let mk toks = clear (List.map (function bi :: bc :: cells -> clear (build_genome 1 rows bi bc (List.map parse_cell cells))
                                            | _ -> failwith "member") (split_members toks)) in
      let x = ref (mk mx) and y = ref (mk my) in
      let out = Buffer.create 256 in
      let emit op ret =
        Buffer.add_string out (rec_line op ret (!x).cache (hash_team (!x).content));
        Buffer.add_string out (" mraw=" ^ String.concat "," (List.map (fun m -> show_hash m.cache) (!x).content)) in
      emit "INIT" "-";
      let step op ret o =
        match team_step par_close !x o with
        | Some x' -> x := x'; Buffer.add_string out " ; "; emit op ret; true
        | None -> Buffer.add_string out " ; UB"; false in
      let rec go = function
        | [] -> ()
        | "S" :: r ->
            (match team_signature !x with
             | Some (h, x') -> x := x'; Buffer.add_string out " ; "; emit "S" (show_hash h); go r
             | None -> Buffer.add_string out " ; UB")
        | "SY" :: r ->
            (match team_signature !y with
             | Some (_, y') -> y := y'; Buffer.add_string out " ; "; emit "SY" "-"; go r
             | None -> Buffer.add_string out " ; UB")
        | "SM" :: j :: r ->
            let jn = int_of_string j in
            let ret = match List.nth_opt (!x).content jn with
              | Some m -> (match signature hash_mep m with Some (h, _) -> show_hash h | None -> "NONE")
              | None -> "NONE" in
            if step "SM" ret (TMemberSignature (nat_of_int jn)) then go r
        | "M" :: m :: r ->
            let rec members m l = if m = 0 then ([], l) else
                match l with k :: rest ->
                  let (cs, rest) = parse_cands (int_of_string k) rest in
                  let (a, b) = members (m - 1) rest in (cs :: a, b)
                           | [] -> failwith "tm" in
            let (cands, r) = members (int_of_string m) r in
            let n = match team_mutation_loop par_close (!x).content cands with
              | Some (_, n) -> "n=" ^ string_of_int (int_of_nat n) | None -> "n=?" in
            if step "M" n (TMutation cands) then go r
        | "X" :: lhs :: m :: r ->
            let rec members m l = if m = 0 then ([], l) else
                match l with b :: k :: rest ->
                  let (ls, rest) = parse_loci (int_of_string k) rest in
                  let (a, bb) = members (m - 1) rest in ((b = "1", ls) :: a, bb)
                           | _ -> failwith "tx" in
            let (ch, r) = members (int_of_string m) r in
            if step "X" "-" (TCrossover (!y, lhs = "1", ch)) then go r
        | "L" :: "0" :: r -> if step "L" "ok=0" (TLoad None) then go r
        | "L" :: "1" :: content :: r ->
            let gs = List.map (parse_content 1 rows) (split_on '@' content) in
            if step "L" "ok=1" (TLoad (Some gs)) then go r
        | "A" :: r -> if step "A" "-" (TAssign !y) then go r
        | t :: _ -> failwith ("team op " ^ t) in
      go ops;
      Buffer.contents out
  | _ -> "BADLINE"

let () =
  try
    while true do
      let line = input_line stdin in
      let toks = split_ws line in
      (match toks with
       | "SYMS" :: r -> load_syms r; print_endline "SYMS-OK"
       | "MEP" :: _ -> print_endline (try run_mep (sections toks) with Failure m -> "EXC " ^ m | Not_found -> "EXC notfound")
       | "GA" :: _ -> print_endline (try run_ga (sections toks) with Failure m -> "EXC " ^ m)
       | "DE" :: _ -> print_endline (try run_de (sections toks) with Failure m -> "EXC " ^ m)
       | "TEAM" :: _ -> print_endline (try run_team (sections toks) with Failure m -> "EXC " ^ m | Not_found -> "EXC notfound")
       | _ -> print_endline "BADLINE")
    done
  with End_of_file -> ()
