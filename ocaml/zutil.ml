(* Shared helpers of the model drivers.  This text is prepended (after an
   `open <Model>` line) to every driver: it converts between the extracted
   positive/Z/N/nat datatypes and OCaml values.  64-bit patterns travel as
   hexadecimal strings. *)
let rec pos_of_int (n : int) : positive =
  if n = 1 then XH else if n land 1 = 0 then XO (pos_of_int (n lsr 1)) else XI (pos_of_int (n lsr 1))
let z_of_int (n : int) : z = if n = 0 then Z0 else if n > 0 then Zpos (pos_of_int n) else Zneg (pos_of_int (- n))
let rec int_of_pos (p : positive) : int =
  match p with XH -> 1 | XO q -> 2 * int_of_pos q | XI q -> 2 * int_of_pos q + 1
let int_of_z (x : z) : int = match x with Z0 -> 0 | Zpos p -> int_of_pos p | Zneg p -> - (int_of_pos p)
let rec nat_of_int (n : int) : nat = if n <= 0 then O else S (nat_of_int (n - 1))
let rec int_of_nat (n : nat) : int = match n with O -> 0 | S m -> 1 + int_of_nat m

(* Z <-> arbitrary precision via lists of bits (little endian) *)
let rec bits_of_pos (p : positive) : bool list =
  match p with XH -> [true] | XO q -> false :: bits_of_pos q | XI q -> true :: bits_of_pos q
let pos_of_bits (l : bool list) : positive option =
  (* l little endian, may have leading (high) zeros *)
  let rec strip = function [] -> [] | false :: r -> strip r | l -> l in
  match strip (List.rev l) with
  | [] -> None
  | _ :: hi_to_lo_rest ->
      Some (List.fold_left (fun acc b -> if b then XI acc else XO acc) XH hi_to_lo_rest)
let z_of_hex (s : string) : z =
  (* unsigned hexadecimal, any length *)
  let bits = ref [] in
  String.iter (fun c ->
    let d = match c with
      | '0'..'9' -> Char.code c - 48 | 'a'..'f' -> Char.code c - 87 | 'A'..'F' -> Char.code c - 55
      | _ -> failwith "z_of_hex" in
    (* prepend 4 bits, most significant first into a big-endian list *)
    bits := ((d land 1) = 1) :: ((d land 2) = 2) :: ((d land 4) = 4) :: ((d land 8) = 8) :: !bits) s;
  (* !bits is little endian now: last hex digit pushed first... rebuild *)
  match pos_of_bits !bits with None -> Z0 | Some p -> Zpos p
let hex_of_z ?(width = 16) (x : z) : string =
  let bits = match x with Z0 -> [] | Zpos p -> bits_of_pos p | Zneg _ -> failwith "hex_of_z: negative" in
  let arr = Array.make (width * 4) false in
  List.iteri (fun i b -> if i < width * 4 then arr.(i) <- b) bits;
  String.init width (fun k ->
    let base = (width - 1 - k) * 4 in
    let d = (if arr.(base) then 1 else 0) + (if arr.(base + 1) then 2 else 0)
            + (if arr.(base + 2) then 4 else 0) + (if arr.(base + 3) then 8 else 0) in
    "0123456789abcdef".[d])
let z_of_dec (s : string) : z =
  (* decimal of any size, optional sign; uses repeated doubling via hex of chunks is overkill:
     ints in the protocol fit OCaml's 63 bits except where hex is used *)
  z_of_int (int_of_string s)
let dec_of_z (x : z) : string = string_of_int (int_of_z x)

let z_of_int64_bits (b : int64) : z = z_of_hex (Printf.sprintf "%016Lx" b)
let int64_bits_of_z (x : z) : int64 = Int64.of_string ("0x" ^ hex_of_z x)

let split_ws (l : string) : string list =
  List.filter (fun w -> w <> "") (String.split_on_char ' ' l)
let rec list_of_coq l = l
