(* Model driver for C16.
   input : M <perc> <gap> <T> <V> <op>...      (perc/gap: raw value, 4294967295 = left open)
             op = hi:<run>:<draws> | di:<run>:<draws> | ds:<gen>:<draws> | dc:<run>:- | ev:<uid=inc,...>
             draws = - | i/<lo>/<hi>/<v>,...  | b/<0|1>/<p bits>,...
             T, V  = - | uid:diff:age:payload,...
   output: OK # <op> <ret> <clrT> <clrV> <unconsumed draws> <T> <V> # ...   (or ... # <op> NONE)
           plus, for di/ds, the weights in array order before the partition:  w=<w1,w2,...>
   Q <s>                      -> target_q s, tsz_f64 s
   U <p|f> <a|d|h> <dss> <perc> -> tuned dss and perc (pinned / fixed tree)            *)
let zs s = z_of_dec s
let sz z = dec_of_z z

(* decimal of a non-negative Z of any size *)
let rec big_dec (x : z) : string =
  match x with
  | Z0 -> "0"
  | Zneg _ -> "-" ^ big_dec (Z.opp x)
  | Zpos _ ->
      let ten = z_of_int 10 in
      let rec go x acc =
        match x with
        | Z0 -> acc
        | _ -> let q = Z.div x ten and r = Z.modulo x ten in go q (string_of_int (int_of_z r) ^ acc) in
      go x ""
let big_of_dec (s : string) : z =
  let ten = z_of_int 10 in
  let n = String.length s in
  let neg = n > 0 && s.[0] = '-' in
  let r = ref Z0 in
  String.iteri (fun i c -> if not (neg && i = 0) then r := Z.add (Z.mul !r ten) (z_of_int (Char.code c - 48))) s;
  if neg then Z.opp !r else !r

let split_on c s = if s = "-" || s = "" then [] else String.split_on_char c s

let parse_ex (t : string) : string example =
  match String.split_on_char ':' t with
  | [u; d; a; p] -> { uid = big_of_dec u; payload = p; diff = big_of_dec d; age = big_of_dec a }
  | _ -> failwith ("example " ^ t)
let show_ex (e : string example) : string =
  big_dec e.uid ^ ":" ^ big_dec e.diff ^ ":" ^ big_dec e.age ^ ":" ^ e.payload
let parse_set s = List.map parse_ex (split_on ',' s)
let show_set l = if l = [] then "-" else String.concat "," (List.map show_ex l)

let parse_draw (t : string) : draw =
  match String.split_on_char '/' t with
  | ["b"; v; _] -> DBool (v = "1")
  | [_; lo; hi; v] -> DInt (big_of_dec lo, big_of_dec hi, big_of_dec v)
  | _ -> failwith ("draw " ^ t)
let parse_draws s = List.map parse_draw (split_on ',' s)

let () =
  try
    while true do
      let line = input_line stdin in
      match split_ws line with
      | "M" :: perc :: gap :: t :: v :: ops ->
          let cfg = { perc = big_of_dec perc; gap = big_of_dec gap; tsz = tsz_f64 } in
          let st = ref { training = parse_set t; validation = parse_set v; clr_t = Z0; clr_v = Z0 } in
          let limit = ref (8 * (List.length !st.training + List.length !st.validation) + 64) in
          let buf = Buffer.create 4096 in
          Buffer.add_string buf "OK";
          (try
            List.iter (fun o ->
              let kind = String.sub o 0 2 in
              let rest = String.sub o 3 (String.length o - 3) in
              let (opv, ds, extra) =
                if kind = "ev" then begin
                  let tbl = Hashtbl.create 64 in
                  List.iter (fun kv -> match String.split_on_char '=' kv with
                    | [k; x] -> Hashtbl.replace tbl k (big_of_dec x)
                    | _ -> failwith "ev") (split_on ',' rest);
                  let f u = match Hashtbl.find_opt tbl (big_dec u) with Some x -> x | None -> Z0 in
                  (Eval (f, f), [], "")
                end else begin
                  match String.split_on_char ':' rest with
                  | [a; d] ->
                      let a = big_of_dec a and ds = parse_draws d in
                      (match kind with
                       | "hi" -> (HoldoutInit a, ds, "")
                       | "di" ->
                           (* the array the partition runs over: validation ++ training, counters reset *)
                           (DssInit a, ds, "")
                       | "ds" -> (DssShake a, ds, "")
                       | "dc" -> (DssClose a, ds, "")
                       | _ -> failwith "op")
                  | _ -> failwith "op"
                end in
              let name = if kind = "ev" then "ev" else List.hd (String.split_on_char ':' o) ^ ":" ^ List.nth (String.split_on_char ':' o) 1 in
              match step cfg opv !st ds with
              | None -> Buffer.add_string buf (" # " ^ name ^ " NONE"); raise Exit
              | Some ((st1, ds1), r) when List.length st1.training + List.length st1.validation > !limit ->
                  (* a regenerated model that duplicates examples grows exponentially: stop replaying *)
                  Buffer.add_string buf (" # " ^ name ^ " GROWS"); raise Exit
              | Some ((st1, ds1), r) ->
                  st := st1;
                  let rs = match r with None -> "-" | Some true -> "1" | Some false -> "0" in
                  Buffer.add_string buf (Printf.sprintf " # %s %s %s %s %d %s %s%s" name rs (big_dec st1.clr_t)
                    (big_dec st1.clr_v) (List.length ds1) (show_set st1.training) (show_set st1.validation) extra)) ops
          with Exit -> ());
          print_endline (Buffer.contents buf)
      | ["Q"; s] -> print_endline ("OK " ^ big_dec (target_q (big_of_dec s)) ^ " " ^ big_dec (tsz_f64 (big_of_dec s)))
      | ["W"; t] ->
          (* weights of a set, in order, and their wrapped sum *)
          let l = parse_set t in
          print_endline ("OK " ^ String.concat "," (List.map (fun e -> big_dec (weight e)) l) ^ " " ^ big_dec (weight_sum l))
      | ["U"; tree; vs; d; p] ->
          let k = match vs with "d" -> VsDss | "h" -> VsHoldout | _ -> VsAsIs in
          let f = if tree = "p" then tune_pinned else tune_fixed in
          let (d', p') = f k (big_of_dec d) (big_of_dec p) in
          print_endline ("OK " ^ big_dec d' ^ " " ^ big_dec p')
      | _ -> print_endline "BADLINE"
    done
  with End_of_file -> ()
