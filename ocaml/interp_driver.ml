(* Model driver for C01.
   input  (one case per line):
     <ncats> <nrows> <best idx> <best cat> <den 0 or 1> <ncells> {cell} <nruns> {run}
     cell := <row> <sym> <par hex or -> <nargs> <arg>*
     sym  := P/<index in prims_all>/<cat>/<argcats or ->/<parametric 0 or 1>
           | V/<var id>/<cat> | K/<value>/<cat>
     run  := <mode b B e s k l L C> <locus idx> <locus cat> <nvals> <value>*
   output: W <0 or 1> then, per run:  " | R <res> D <den or -> S <state or -> A <asked or ->"
     A = the argument positions the entry symbol asks for (asked_at), e.g. 0,1,3
     R = the machine (run_locus threading the state of the persistent objects),
     D = den on the unfolded tree (only when asked: the tree may be exponentially
         larger than the genome), W = wf_genome_b                               *)
let f64_of_hex h = F64.of_bits (z_of_hex h)
let hex_of_f64 f = hex_of_z (F64.to_bits f)
let float_of_f64 f = Int64.float_of_bits (int64_bits_of_z (F64.to_bits f))
let f64_of_float x = F64.of_bits (z_of_int64_bits (Int64.bits_of_float x))
let lift1 g = fun f -> f64_of_float (g (float_of_f64 f))
let lm = { l_log = lift1 log; l_exp = lift1 exp; l_sin = lift1 sin; l_cos = lift1 cos }

let parse_value (t : string) : value =
  if t = "v" then VVoid
  else
    let p = String.sub t 2 (String.length t - 2) in
    match t.[0] with
    | 'i' -> VInt (z_of_int (int_of_string p))
    | 'd' -> VDouble (f64_of_hex p)
    | 's' ->
        let n = String.length p / 2 in
        VString (List.init n (fun i -> z_of_int (int_of_string ("0x" ^ String.sub p (2 * i) 2))))
    | _ -> failwith "value"

let show_value (v : value) : string =
  match v with
  | VVoid -> "v"
  | VInt z -> "i:" ^ dec_of_z z
  | VDouble f ->
      let h = hex_of_f64 f in
      (* all NaNs print alike, as in the harness *)
      let b = Int64.float_of_bits (Int64.of_string ("0x" ^ h)) in
      if b <> b then "d:7ff8000000000000" else "d:" ^ h
  | VString s -> "s:" ^ String.concat "" (List.map (fun c -> Printf.sprintf "%02x" (int_of_z c)) s)

let show_result (r : mres) : string =
  match r with
  | RVal v -> show_value v
  | RThrow -> "THROW"
  | RStuck -> "STUCK"
  | ROutOfFuel -> "OUTOFFUEL"

let show_outcome (o : outcome) : string =
  match o with Val v -> show_value v | Throw -> "THROW" | Stuck -> "STUCK"

let nats_of_csv (s : string) : nat list =
  if s = "-" || s = "" then [] else List.map (fun w -> nat_of_int (int_of_string w)) (String.split_on_char ',' s)

let bodies = Array.of_list prims_all
let opc = ref 0
(* opcode -> which penalty function the symbol overrides (6th field of a P token: z c4 e12) *)
let pens : (int, pen_kind) Hashtbl.t = Hashtbl.create 64
let pen_of s = match s with "c4" -> PenCmp4 | "e12" -> PenEq12 | _ -> PenZero

let parse_sym (tok : string) : sym =
  incr opc;
  let o = z_of_int !opc in
  match String.split_on_char '/' tok with
  | ["P"; idx; cat; acs; par; pen] ->
      Hashtbl.replace pens !opc (pen_of pen);
      prim_sym lm o bodies.(int_of_string idx) (nat_of_int (int_of_string cat)) (nats_of_csv acs) (par = "1")
  | ["P"; idx; cat; acs; par] ->
      prim_sym lm o bodies.(int_of_string idx) (nat_of_int (int_of_string cat)) (nats_of_csv acs) (par = "1")
  | ["V"; id; cat] -> variable_sym o (nat_of_int (int_of_string id)) (nat_of_int (int_of_string cat))
  | ["K"; v; cat] -> constant_sym o (parse_value v) (nat_of_int (int_of_string cat))
  | _ -> failwith ("sym " ^ tok)

let mkloc i c = { l_index = nat_of_int i; l_cat = nat_of_int c }

let show_state (g : genome) (st : state) : string =
  let es = valid_entries g st in
  Printf.sprintf "%d,%d %d%s" (int_of_nat st.ip.l_index) (int_of_nat st.ip.l_cat) (List.length es)
    (String.concat "" (List.map (fun (l, v) ->
       Printf.sprintf " %d,%d=%s" (int_of_nat l.l_index) (int_of_nat l.l_cat) (show_value v)) es))

let do_case (w : string list) : string =
  let toks = ref w in
  let next () = match !toks with [] -> failwith "short line" | t :: r -> toks := r; t in
  let nexti () = int_of_string (next ()) in
  let ncats = nexti () in
  let nrows = nexti () in
  let bi = nexti () in
  let bc = nexti () in
  let want_den = nexti () = 1 in
  let ncells = nexti () in
  let cells = ref [] in
  for _ = 1 to ncells do
    let row = nexti () in
    let s = parse_sym (next ()) in
    let par = next () in
    let nargs = nexti () in
    let args = List.init nargs (fun _ -> nat_of_int (nexti ())) in
    let ge = { g_sym = s; g_par = (if par = "-" then F64.of_bits Z0 else f64_of_hex par); g_args = args } in
    cells := { c_row = nat_of_int row; c_gene = ge } :: !cells
  done;
  let g = genome_of_cells (nat_of_int nrows) (nat_of_int ncats) (List.rev !cells) (mkloc bi bc) in
  let buf = Buffer.create 256 in
  Buffer.add_string buf (if wf_genome_b g then "W 1" else "W 0");
  let st_s = ref (init_state g) and st_b = ref (init_state g) and st_l = ref (init_state g) in
  let team_states : (string, state list) Hashtbl.t = Hashtbl.create 4 in
  let nruns = nexti () in
  for _ = 1 to nruns do
    let mode = next () in
    let li = nexti () in
    let lc = nexti () in
    let nvals = nexti () in
    let ex = List.init nvals (fun _ -> parse_value (next ())) in
    let l = mkloc li lc in
    if mode = "p" then begin
      let pk z = match Hashtbl.find_opt pens (int_of_z z) with Some k -> k | None -> PenZero in
      let (r, st2) = penalty_locus g pk l !st_s in
      st_s := st2;
      Buffer.add_string buf (Printf.sprintf " | R %s D - S %s A -"
        (match r with Some z -> "p:" ^ dec_of_z z | None -> "p:UB") (show_state g st2))
    end else if String.length mode > 2 && String.sub mode 0 2 = "T:" then begin
      let loci = List.map (fun m -> match String.split_on_char ',' m with
                                    | [i; c] -> mkloc (int_of_string i) (int_of_string c)
                                    | _ -> failwith "team locus")
                   (String.split_on_char ';' (String.sub mode 2 (String.length mode - 2))) in
      let gs = List.map (fun l -> { g with best = l }) loci in
      let sts = match Hashtbl.find_opt team_states mode with
                | Some s -> s | None -> List.map init_state gs in
      let (r, sts') = team_run (List.combine gs sts) ex in
      Hashtbl.replace team_states mode sts';
      Buffer.add_string buf (Printf.sprintf " | R %s D - S - A -" (show_result r))
    end else begin
    let src = not (mode = "b" || mode = "B") in
    let entry = if mode = "k" || mode = "l" then l else g.best in
    (* C: the lambda object is replaced by a copy, whose interpreter is new *)
    if mode = "C" then st_l := init_state g;
    let persistent = match mode with "s" | "l" -> Some st_s | "B" -> Some st_b | "L" | "C" -> Some st_l | _ -> None in
    let st0 = match persistent with Some r -> !r | None -> init_state g in
    let st1 = if src then set_example st0 ex else st0 in
    let (r, st2) = run_locus src g entry st1 in
    (match persistent with Some rf -> rf := st2 | None -> ());
    let (d, a) =
      if want_den then
        (match tree_of (S g.rows) g entry with
         | Some t ->
             let vars = vars_of src (if src then Some ex else None) in
             (show_outcome (den vars t),
              (match asked_at vars t with
               | [] -> "none"
               | l -> String.concat "," (List.map (fun i -> string_of_int (int_of_nat i)) l)))
         | None -> ("NOTREE", "-"))
      else ("-", "-") in
    let s = match persistent with Some _ -> show_state g st2 | None -> "-" in
    Buffer.add_string buf (Printf.sprintf " | R %s D %s S %s A %s" (show_result r) d s a)
    end
  done;
  Buffer.contents buf

(* CHAIN <function sym> <constant sym> <N> <nruns> {run}: the program F(F(...F(X0, c)..., c), c)
   nested N deep.  Its denotation is computed by accumulation from the leaf: by den's
   compositionality (C01_only_asked_arguments_matter: a node's value depends only on the
   denotations of the children it asks for) the value of level k+1 is den of the node applied to
   the CONSTANT holding the value of level k.  The machine is not run on these (the extracted
   unary-nat machine is quadratic in the depth): R repeats D. *)
let do_chain (w : string list) : string =
  let toks = ref w in
  let next () = match !toks with [] -> failwith "short line" | t :: r -> toks := r; t in
  let nexti () = int_of_string (next ()) in
  let fsym = parse_sym (next ()) in
  let csym = parse_sym (next ()) in
  let n = nexti () in
  let zero = F64.of_bits Z0 in
  let cnode = Node (csym, zero, []) in
  let buf = Buffer.create 256 in
  Buffer.add_string buf "W 1";
  let nruns = nexti () in
  for _ = 1 to nruns do
    let mode = next () in
    let _ = nexti () in
    let _ = nexti () in
    let nvals = nexti () in
    let ex = List.init nvals (fun _ -> parse_value (next ())) in
    let src = not (mode = "b" || mode = "B") in
    let vars = vars_of src (if src then Some ex else None) in
    let leaf = match vars O with Some v -> Val v | None -> Stuck in
    let rec loop i acc =
      if i = 0 then acc
      else match acc with
        | Val v -> loop (i - 1) (den vars (Node (fsym, zero, [Node (constant_sym Z0 v O, zero, []); cnode])))
        | o -> o in
    let d = show_outcome (loop n leaf) in
    Buffer.add_string buf (Printf.sprintf " | R %s D %s S - A -" d d)
  done;
  Buffer.contents buf

let () =
  try
    while true do
      let line = input_line stdin in
      (try print_endline (match split_ws line with
                          | "CHAIN" :: rest -> do_chain rest
                          | w -> do_case w)
       with e -> print_endline ("BADLINE " ^ Printexc.to_string e))
    done
  with End_of_file -> ()
