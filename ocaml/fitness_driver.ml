(* Model driver for vita::fitness_t (C18).
   input : <A> <B> <scalar hex> <accuracy A hex> <accuracy B hex>
           A, B = comma separated 64-bit patterns, or - for the empty fitness
   output: lt eq gt ge le ne dom mm nanA finA plus minus times divs muls abs sqrt round dist comb small nonneg ae aes
           (booleans 0/1; vectors as the input; X = contract (Expects) not met) *)
let f64_of_hex h = F64.of_bits (z_of_hex h)
let hex_of_f64 f = hex_of_z (F64.to_bits f)

let parse_vec (t : string) : vec =
  if t = "-" then [] else List.map f64_of_hex (String.split_on_char ',' t)
let show_vec (v : vec) : string =
  if v = [] then "-" else String.concat "," (List.map hex_of_f64 v)
let show_ovec = function None -> "X" | Some v -> show_vec v
let b2s b = if b then "1" else "0"

let () =
  try
    while true do
      let line = input_line stdin in
      match split_ws line with
      | [ta; tb; ts; tacca; taccb] ->
          let a = parse_vec ta and b = parse_vec tb in
          let s = f64_of_hex ts in
          let mm = match make_measurements a (f64_of_hex tacca) false, make_measurements b (f64_of_hex taccb) false with
            | Some ma, Some mb -> b2s (mm_ge ma mb)
            | _, _ -> "X" in
          let out = [
            b2s (lt_lex a b); b2s (eq_vec a b); b2s (gt a b); b2s (ge a b); b2s (le a b); b2s (ne a b);
            b2s (dominating a b); mm; b2s (vis_nan a); b2s (vis_finite a);
            show_ovec (plus a b); show_ovec (minus a b); show_ovec (times a b);
            show_vec (div_scalar a s); show_vec (mul_scalar a s);
            show_vec (vabs a); show_vec (vsqrt a); show_vec (round_to a);
            (match distance a b with None -> "X" | Some d -> hex_of_f64 d);
            show_vec (combine_fit a b);
            b2s (vissmall a); b2s (visnonnegative a);
            (match valmost_equal a b default_ae_epsilon with None -> "X" | Some v -> b2s v);
            (match valmost_equal a b s with None -> "X" | Some v -> b2s v) ] in
          print_endline (String.concat " " out)
      | _ -> print_endline "BADLINE"
    done
  with End_of_file -> ()
