(* Model driver for C15.  Input: one case per line,
     S <bits> <permille> <seed> | <ops of thread 0> | ... @ <t>:<id>,<t>:<id>,...
   i.e. the script given to harness/h_conc.cc followed by the order in which
   the real threads passed the H3 scheduling points.  The model threads are
   driven in that order: an acquisition point (10 find, 20 insert, 30 clear,
   40 clear(key)) must find the lock available in the model -- otherwise the
   observed trace is not a trace of the model (BLOCKED@n) -- and the rest of
   the method runs at its second point (11, 21) or at once (30, 40); the
   linearisation order is the order of lock acquisition.
   Output: r<t>=<fit>;<fit>...  per thread, like the harness. *)
let n_of_hex (s : string) : n = match z_of_hex s with Z0 -> N0 | Zpos p -> Npos p | Zneg _ -> N0
let n_of_int (i : int) : n = if i = 0 then N0 else Npos (pos_of_int i)
let hex_of_n (x : n) : string =
  match x with
  | N0 -> "0"
  | Npos p ->
      let bits = Array.of_list (bits_of_pos p) in
      let nb = Array.length bits in
      let nd = (nb + 3) / 4 in
      String.init nd (fun k ->
        let base = (nd - 1 - k) * 4 in
        let b i = if base + i < nb && bits.(base + i) then 1 lsl i else 0 in
        "0123456789abcdef".[b 0 + b 1 + b 2 + b 3])
let show_fit (f : n list) : string =
  match f with [] -> "-" | _ -> String.concat "," (List.map hex_of_n f)
let rec drop n l = if n = 0 then l else match l with [] -> [] | _ :: r -> drop (n - 1) r

let parse_op (o : string) : op =
  let p = String.split_on_char ',' o in
  let key () = (n_of_hex (List.nth p 1), n_of_hex (List.nth p 2)) in
  match (List.hd p).[0] with
  | 'F' -> OFind (key ())
  | 'I' -> OInsert (key (), List.map n_of_hex (drop 3 p))
  | 'C' -> OClear
  | _ -> OClearOne (key ())

let thread_of (s : state) (t : int) : thread = List.nth s.ths t

let at_method_start (th : thread) : bool =
  th.holds = None && (match th.acts with [] -> true | ALock _ :: _ -> true | _ -> false)

let run_case (line : string) : string =
  match String.split_on_char '@' line with
  | [script; trace] ->
      let sections = List.map String.trim (String.split_on_char '|' script) in
      let head = split_ws (List.hd sections) in
      let bits = int_of_string (List.nth head 1) in
      (* save has no scheduling point and does not change the state: it is left out of the
         model programs; scripts with load are not sent to this driver *)
      let opss = List.map (fun sec -> List.map parse_op (List.filter (fun o -> o.[0] <> 'V') (split_ws sec)))
                   (List.tl sections) in
      let s = ref (init (gen_progs (n_of_int bits) opss)) in
      let blocked = ref None in
      let finish t =
        let fuel = ref 100000 in
        while not (at_method_start (thread_of !s t)) && !fuel > 0 do
          s := step !s (nat_of_int t); decr fuel
        done in
      let evs = List.filter (fun x -> x <> "") (String.split_on_char ',' (String.trim trace)) in
      List.iteri (fun n e ->
        if !blocked = None then
          match String.split_on_char ':' e with
          | [ts; ids] ->
              let t = int_of_string ts and id = int_of_string ids in
              if id = 10 || id = 20 || id = 30 || id = 40 then begin
                if not (at_method_start (thread_of !s t)) then finish t;
                s := step !s (nat_of_int t);
                if (thread_of !s t).holds = None then blocked := Some n
                else if id >= 30 then finish t
              end else finish t
          | _ -> ()) evs;
      (match !blocked with
       | Some n -> Printf.sprintf "BLOCKED@%d" n
       | None ->
           List.iteri (fun t _ -> finish t) !s.ths;
           String.concat " "
             (List.mapi (fun t th ->
                let rs = List.rev_map (fun (_, r) -> show_fit r) th.results in
                Printf.sprintf "r%d=%s" t (if rs = [] then "." else String.concat ";" rs)) !s.ths))
  | _ -> "BADLINE"

let () =
  try
    while true do
      print_endline (run_case (input_line stdin))
    done
  with End_of_file -> ()
