"""C19: case generators, line encoders and the executable oracle (an
independent lexer + precedence parser for the four exported syntaxes).

A case is a small genome:
  syms  : list of symbol descriptions (dict)
  genes : list of (symbol index, parameter bits | None, [argument rows]); row 0 is best()
All randomness comes from the rng passed in (ck.rng).
"""
import re
import struct

FORMATS = ["c", "cpp", "mql", "py"]


def bits_of(x):
    return struct.unpack("<Q", struct.pack("<d", x))[0]


def dbl_of(b):
    return struct.unpack("<d", struct.pack("<Q", b))[0]


# ------------------------------------------------------------ typed catalog
# Which cvect instantiations make sense (R real, S string, B boolean): typing
# knowledge used ONLY to generate programs the C / C++ compilers can type-check.
REAL1 = ["real_abs", "real_cos", "real_ln", "real_sin", "real_sqrt", "real_sigmoid"]
REAL2 = ["real_add", "real_aq", "real_div", "real_idiv", "real_max", "real_mod", "real_mul", "real_sub"]
INTF = ["int_add", "int_div", "int_ife", "int_ifl", "int_ifz", "int_mod", "int_mul", "int_shl", "int_sub"]
TYPED = {}
for _i in REAL1 + REAL2 + INTF + ["real_ifz", "real_real", "real_integer", "int_number"]:
    TYPED[_i] = [("R",)]
for _i in ["real_gt", "real_lt"]:
    TYPED[_i] = [("R", "B")]
for _i in ["real_ifb", "real_ife", "real_ifl"]:
    TYPED[_i] = [("R", "R"), ("R", "S"), ("R", "B")]
TYPED["real_length"] = [("S", "R")]
for _i in ["bool_l_and", "bool_l_not", "bool_l_or", "bool_zero", "bool_one"]:
    TYPED[_i] = [("B",)]
TYPED["string_ife"] = [("S", "R"), ("S", "S"), ("S", "B")]
TYPED["int_ife"] = [("R", "R")]
TYPED["int_ifl"] = [("R", "R")]

# programs the interpreter can run and the C text can reproduce (reals, lazily
# evaluated conditionals, string length of literals)
EXEC_FUNS = REAL1 + REAL2 + ["real_ifb", "real_ife", "real_ifl", "real_ifz", "real_length"]


class Catalog:
    def __init__(self, infos):
        self.infos = {i["ident"]: i for i in infos}
        self.order = [i["ident"] for i in infos]
        self.escapes = False      # constant<std::string>::display escapes quotes and backslashes (set by the check)
        self.inst = []           # (ident, cvect kinds, result kind, [arg kinds])
        for ident in self.order:
            info = self.infos[ident]
            for cv in TYPED.get(ident, []):
                need = max([info["cat_ix"]] + info["arg_ix"]) + 1
                if len(cv) < need:
                    cv = tuple(list(cv) + [cv[-1]] * (need - len(cv)))
                self.inst.append((ident, cv, cv[info["cat_ix"]], [cv[j] for j in info["arg_ix"]]))

    def functions(self, kind=None, only=None):
        return [x for x in self.inst if x[3] and (kind is None or x[2] == kind) and (only is None or x[0] in only)]

    def terminals(self, kind):
        return [x for x in self.inst if not x[3] and x[2] == kind]

    def template(self, ident, fmt):
        d = self.infos[ident]["disp"][FORMATS.index(fmt)]
        return d


# --------------------------------------------------------------- the cases
class Case:
    def __init__(self, tag):
        self.tag = tag
        self.syms = []
        self.genes = []
        self.kinds = []          # kind of each row
        self.catmap = {}
        self.vectors = None      # list of list of bits (exec leg)
        self.typed = True
        self.wellformed = True   # placeholder-free terminals
        self.known_key = None    # the case aims at a recorded known finding
        self.rows = None         # row of each gene (None: gene i on row i)
        self.expect = None       # (template, "differs"|"agrees", why): documented Python/interpreter relation

    def cat(self, kind):
        if kind not in self.catmap:
            self.catmap[kind] = len(self.catmap)
        return self.catmap[kind]

    def sym_index(self, d):
        key = repr(sorted(d.items()))
        for i, s in enumerate(self.syms):
            if s["_key"] == key:
                return i
        d = dict(d)
        d["_key"] = key
        self.syms.append(d)
        return len(self.syms) - 1

    def to_json(self):
        return {"tag": self.tag,
                "syms": [{k: (v.hex() if isinstance(v, bytes) else v) for k, v in s.items() if k != "_key"} for s in self.syms],
                "genes": [[g[0], g[1], list(g[2])] for g in self.genes],
                "kinds": self.kinds, "vectors": self.vectors, "typed": self.typed, "wellformed": self.wellformed,
                "known_key": self.known_key, "rows": self.rows}

    @staticmethod
    def from_json(o):
        c = Case(o.get("tag", "replay"))
        for s in o["syms"]:
            d = dict(s)
            for k in ("name", "s"):
                if k in d:
                    d[k] = bytes.fromhex(d[k])
            c.sym_index(d)
        c.genes = [(g[0], g[1], list(g[2])) for g in o["genes"]]
        c.kinds = o.get("kinds") or ["R"] * len(c.genes)
        c.vectors = o.get("vectors")
        c.typed = o.get("typed", True)
        c.wellformed = o.get("wellformed", True)
        c.known_key = o.get("known_key")
        c.rows = o.get("rows")
        return c

    # ---- line protocol
    def harness_line(self):
        out = []
        for s in self.syms:
            k = s["k"]
            if k == "K":
                out.append("K:%s:%s" % (s["ident"], ",".join(str(c) for c in s["cv"])))
            elif k == "D":
                out.append("D:%016x:%d" % (s["bits"], s["cat"]))
            elif k == "I":
                out.append("I:%d:%d" % (s["v"], s["cat"]))
            elif k == "Q":
                out.append("Q:%s:%d" % (s["s"].hex(), s["cat"]))
            elif k == "V":
                out.append("V:%s:%d" % (s["name"].hex(), s["cat"]))
            elif k == "U":
                out.append("U:%s:%d:%s" % (s["name"].hex(), s["cat"], ",".join(str(c) for c in s["argcats"])))
            elif k == "T":
                out.append("T:%s:%d:%d" % (s["name"].hex(), s["cat"], 1 if s["param"] else 0))
        line = "S " + ";".join(out) + " G " + self.genes_field()
        if self.vectors is not None:
            line += " X " + ";".join(",".join("%016x" % b for b in v) for v in self.vectors)
        return line

    def model_line(self, class_index):
        out = []
        for s in self.syms:
            k = s["k"]
            ac = ",".join(str(c) for c in s.get("argcats", []))
            if k == "K":
                out.append("K:%d:%d:%s" % (class_index[s["ident"]], s["cat"], ac))
            elif k == "D":
                out.append("D:%016x:%d" % (s["bits"], s["cat"]))
            elif k == "I":
                out.append("I:%d:%d" % (s["v"], s["cat"]))
            elif k == "Q":
                out.append("Q:%s:%d" % (s["s"].hex() or "-", s["cat"]))
            elif k == "V":
                out.append("N:%s:%d::0:1" % (s["name"].hex(), s["cat"]))
            elif k == "U":
                out.append("N:%s:%d:%s:0:0" % (s["name"].hex(), s["cat"], ac))
            elif k == "T":
                out.append("N:%s:%d::%d:1" % (s["name"].hex(), s["cat"], 1 if s["param"] else 0))
        return "S " + ";".join(out) + " G " + self.genes_field()

    def genes_field(self):
        """arguments are printed as ROWS (a locus is row + category of the argument)"""
        rows = self.rows or list(range(len(self.genes)))
        return ";".join(
            "%d:%s:%s:%d" % (g[0], "-" if g[1] is None else "%016x" % g[1], ",".join(str(rows[a]) for a in g[2]), rows[i])
            for i, g in enumerate(self.genes))

    def compact_rows(self):
        """place the genes of different categories on the SAME rows: each gene goes to the
        lowest row below all of its users that is still free in its own category"""
        n = len(self.genes)
        users = [[] for _ in range(n)]
        for i, g in enumerate(self.genes):
            for a in g[2]:
                users[a].append(i)
        rows = [0] * n
        taken = set()
        for i, g in enumerate(self.genes):
            cat = self.syms[g[0]]["cat"]
            r = 0 if i == 0 else max(rows[u] for u in users[i]) + 1 if users[i] else 1
            while (r, cat) in taken:
                r += 1
            taken.add((r, cat))
            rows[i] = r
        self.rows = rows
        return self

    def tree_size(self):
        """number of nodes of the unfolded active tree (shared sub-expressions counted each time)"""
        memo = {}

        def go(i):
            if i not in memo:
                memo[i] = 1 + sum(go(a) for a in self.genes[i][2])
            return memo[i]
        return go(0)

    def shares_rows(self):
        rows = self.rows or []
        return len(set(rows)) < len(rows)

    def idents(self):
        """symbol names along the active tree, preorder (for keys / histograms)"""
        out = []

        def walk(r, depth=0):
            if depth > 64:
                return
            s = self.syms[self.genes[r][0]]
            out.append(s.get("ident") or s["k"])
            for a in self.genes[r][2]:
                walk(a, depth + 1)
        walk(0)
        return out


# values with exactly printable %f text: multiples of 1/64 (six decimals)
def exact_consts():
    vals = [0.0, 1.0, 2.0, 3.5, 0.5, 0.015625, 10.0, 100.25, 7.0, 0.25, 1.5, 64.0, 3.0, 1000000.0]
    return vals + [-v for v in vals if v != 0.0]


NAMES_R = [b"X1", b"X2", b"X3"]
NAMES_S = [b"S1", b"S2"]
NAMES_B = [b"B1"]
STRINGS = [b"car", b"a b", b"", b"x-1", b"(", b"a,b", b"q?r:s", b"50% off", b"1+2", b"if", b"&&", b"'", b"A_1",
           b"US$50", b"a$$b", b"cost: $9", b"R$&D", b"it's 5 o'clock", b"`x`", b"100%", b"$1", b"a&b", b"007"]
# regex / format / placeholder look-alikes: the rendered argument must be inserted VERBATIM
SPECIAL_STRINGS = [b"US$50", b"a$$b", b"cost: $9", b"R$&D", b"$1", b"$2x", b"$&", b"$$", b"$`", b"$'", b"x$", b"$0$11",
                   b"a&b", b"&&&", b"it's", b"'$1'", b"`$&`", b"100%", b"% %", b"%1%", b"%d %s", b"1", b"42",
                   b"3.5e-1", b"-7", b".^$|()[]{}*+?", b"[a-z]+", b"(x)",
                   # operator / comment / bracket look-alikes: text passes over the rendering must leave literals alone
                   b"--", b"a--b---c", b"++", b"- -", b"&&", b"||", b"//", b"/* */", b"((", b"))", b"  ", b" x "]
# (a backslash or a double quote inside a string constant is the recorded known finding, see quote_cases)


class Gen:
    def __init__(self, rng, catalog):
        self.rng = rng
        self.cat = catalog

    def rand_double(self, exact=False):
        r = self.rng
        if exact:
            return r.choice(exact_consts())
        k = r.random()
        if k < 0.3:
            return r.choice(exact_consts())
        if k < 0.4:
            return float(r.choice([0, 1, -1, 2, -2, 7, -7, 1000000, 3, 12]))
        if k < 0.7:
            return round(r.uniform(-1000, 1000), r.choice([0, 1, 3, 6, 9]))
        if k < 0.8:
            return r.choice([1e-7, -1e-7, 0.0000005, -0.0000005, 0.0000015, 123456789.125, -1e15, 1e22, -0.0,
                             2.5e-6, 999999.9999995, -0.9999995, 1e300, 5e-324])
        return r.uniform(-3, 3)

    def param_for(self, ident):
        """a parameter inside the contract of the parametric class (real::integer
        and int::number draw integers of the int range)"""
        r = self.rng
        if ident in ("real_integer", "int_number"):
            return bits_of(float(r.choice([0, 1, -1, 5, -7, 127, -128, 42, 2147483647, -2147483648, r.randint(-10**6, 10**6)])))
        return bits_of(self.rand_double())

    def terminal(self, case, kind, exec_leg=False):
        """returns (symbol dict, parameter bits|None)"""
        r = self.rng
        c = case.cat(kind)
        if kind == "R":
            k = r.random()
            if k < 0.3:
                names = NAMES_R[:2] if exec_leg else NAMES_R
                return {"k": "V", "name": r.choice(names), "cat": c}, None
            if k < 0.55:
                return {"k": "D", "bits": bits_of(self.rand_double(exec_leg)), "cat": c}, None
            if k < 0.75:
                return {"k": "K", "ident": "real_real", "cv": [c], "cat": c, "argcats": []}, bits_of(self.rand_double(exec_leg))
            if k < 0.9:
                v = float(r.choice([0, 1, -1, 5, -7, 127, -128, 42])) if r.random() < 0.7 else r.uniform(-100, 100)
                if exec_leg:
                    v = float(int(v))
                return {"k": "K", "ident": "real_integer", "cv": [c], "cat": c, "argcats": []}, bits_of(v)
            if exec_leg:
                return {"k": "D", "bits": bits_of(self.rand_double(True)), "cat": c}, None
            if r.random() < 0.5:
                return {"k": "I", "v": r.choice([0, 1, -1, 12, -2147483648, 2147483647, -40]), "cat": c}, None
            return {"k": "K", "ident": "int_number", "cv": [c], "cat": c, "argcats": []}, bits_of(float(r.randint(-128, 127)))
        if kind == "S":
            if r.random() < 0.7 or exec_leg:
                pool = STRINGS + SPECIAL_STRINGS
                return {"k": "Q", "s": r.choice(pool), "cat": c}, None
            return {"k": "V", "name": r.choice(NAMES_S), "cat": c}, None
        k = r.random()
        if k < 0.4:
            return {"k": "K", "ident": "bool_zero", "cv": [c], "cat": c, "argcats": []}, None
        if k < 0.8:
            return {"k": "K", "ident": "bool_one", "cv": [c], "cat": c, "argcats": []}, None
        return {"k": "V", "name": r.choice(NAMES_B), "cat": c}, None

    def function_sym(self, case, inst):
        ident, cv, rk, aks = inst
        cvc = [case.cat(k) for k in cv]
        info = self.cat.infos[ident]
        return {"k": "K", "ident": ident, "cv": cvc, "cat": cvc[info["cat_ix"]],
                "argcats": [cvc[j] for j in info["arg_ix"]]}

    def grow(self, case, root_inst=None, root_kind="R", depth=3, force=None, exec_leg=False, share=0.15):
        """fill case.genes breadth first.  force = {(row, argpos): inst} places a
        given function instance at an argument."""
        r = self.rng
        only = EXEC_FUNS if exec_leg else None
        pending = []            # rows whose arguments are to be created
        depth_of = {}

        def new_row(kind, d, inst=None, term=False):
            row = len(case.genes)
            if inst is None and not term and d < depth and r.random() < 0.75:
                fs = self.cat.functions(kind, only)
                inst = r.choice(fs) if fs else None
            if inst is not None:
                s = self.function_sym(case, inst)
                case.genes.append([case.sym_index(s), None, None])
                case.kinds.append(inst[2])
                depth_of[row] = d
                pending.append((row, inst))
            else:
                s, par = self.terminal(case, kind, exec_leg)
                case.genes.append([case.sym_index(s), par, []])
                case.kinds.append(kind)
                depth_of[row] = d
            return row

        case.cat(root_kind)
        new_row(root_kind, 0, root_inst)
        while pending:
            row, inst = pending.pop(0)
            args = []
            for j, ak in enumerate(inst[3]):
                f = (force or {}).get((row, j))
                cands = [x for x in range(row + 1, len(case.genes)) if case.kinds[x] == ak]
                if isinstance(f, dict):
                    # a given terminal symbol
                    fs = dict(f)
                    fs["cat"] = case.cat(ak)
                    case.genes.append([case.sym_index(fs), None, []])
                    case.kinds.append(ak)
                    depth_of[len(case.genes) - 1] = depth_of[row] + 1
                    args.append(len(case.genes) - 1)
                elif f is not None:
                    args.append(new_row(ak, depth_of[row] + 1, inst=f if f != "terminal" else None, term=(f == "terminal")))
                elif cands and r.random() < share:
                    args.append(r.choice(cands))
                else:
                    args.append(new_row(ak, depth_of[row] + 1))
            case.genes[row][2] = args
        case.genes = [tuple(g) for g in case.genes]
        return case

    def pair_cases(self):
        """every (parent instance, argument position, child instance) with
        matching kinds, the other arguments being terminals"""
        out = []
        for p in self.cat.functions():
            for j, ak in enumerate(p[3]):
                kids = self.cat.functions(ak) + ["terminal", "terminal"]
                for ch in kids:
                    c = Case("pair")
                    self.grow(c, root_inst=p, root_kind=p[2], depth=0, force={(0, j): ch})
                    out.append(c)
        return out

    def untyped_pair_cases(self):
        """every parent class x argument x child class regardless of typing, one
        category: only printed, parsed and compared (no compiler)"""
        out = []
        r = self.rng
        idents = self.cat.order
        funs = [i for i in idents if self.cat.infos[i]["arity"] > 0]
        for p in funs:
            pi = self.cat.infos[p]
            for j in range(pi["arity"]):
                for ch in idents:
                    ci = self.cat.infos[ch]
                    c = Case("upair")
                    c.typed = False
                    c.catmap = {"R": 0}

                    def ksym(info):
                        n = max([info["cat_ix"]] + info["arg_ix"]) + 1
                        return {"k": "K", "ident": info["ident"], "cv": [0] * n, "cat": 0, "argcats": [0] * info["arity"]}
                    genes = [[c.sym_index(ksym(pi)), None, []]]
                    for a in range(pi["arity"]):
                        if a == j:
                            row = len(genes)
                            par = self.param_for(ch) if ci["parametric"] else None
                            genes.append([c.sym_index(ksym(ci)), par, []])
                            genes[0][2].append(row)
                            for _ in range(ci["arity"]):
                                s, par2 = self.terminal(c, "R")
                                genes.append([c.sym_index(s), par2, []])
                                genes[row][2].append(len(genes) - 1)
                        else:
                            s, par2 = self.terminal(c, "R")
                            genes.append([c.sym_index(s), par2, []])
                            genes[0][2].append(len(genes) - 1)
                    c.genes = [tuple(g) for g in genes]
                    c.kinds = ["R"] * len(genes)
                    out.append(c)
        return out

    def string_cases(self):
        """every special string at every string-taking argument of every template (with the
        interpreter's value for the real-valued ones)"""
        out = []
        for p in self.cat.functions():
            if p[0].startswith("int_"):
                continue
            for j, ak in enumerate(p[3]):
                if ak != "S":
                    continue
                for sv in SPECIAL_STRINGS:
                    c = Case("string")
                    self.grow(c, root_inst=p, root_kind=p[2], depth=0, force={(0, j): {"k": "Q", "s": sv}},
                              exec_leg=(p[2] == "R" and p[0] == "real_length"))
                    if p[2] == "R" and p[0] == "real_length":
                        nv = len([x for x in c.syms if x["k"] == "V"])
                        c.vectors = [[bits_of(1.0)] * nv, [bits_of(2.0)] * nv]
                    if self.rng.random() < 0.5:
                        c.compact_rows()
                    out.append(c)
        return out

    def intlit_cases(self):
        """integer-valued (and few-decimal) parameters of the REAL ephemeral constants as BOTH operands of the
        binary real functions and in the compared positions of the conditionals: in C, C++ and MQL `7/2`
        is 3, so a real constant must be printed as a floating literal; executed against the interpreter"""
        out = []
        vals = [0.0, 1.0, -1.0, 2.0, -2.0, 7.0, -7.0, 3.0, 1e6, -0.0, 0.5, 2.5, -7.5, 1.25, 100.0, 10.0]
        kinds = ["real_real", "real_integer", "D"]
        parents = [x for x in self.cat.functions("R", EXEC_FUNS) if x[0] != "real_length" and x[1] == ("R",) * len(x[1])]
        r = self.rng
        for p in parents:
            n = len(p[3])
            if n == 1:
                combos = [(a, 0.0) for a in vals]
            elif n == 2 and p[0] in ("real_div", "real_idiv", "real_mod"):
                combos = [(a, b) for a in vals[:8] for b in vals[:8]]
            elif n == 2:
                combos = [(a, b) for a in vals[:8:2] for b in vals[1:8:2]]
            else:
                combos = r.sample([(a, b) for a in vals for b in vals[:3]], 16)
            for a, b in combos:
                for kind in kinds:
                    c = Case("intlit")
                    cc = c.cat("R")

                    def term(v):
                        if kind == "D":
                            return {"k": "D", "bits": bits_of(v), "cat": cc}, None
                        if kind == "real_integer":
                            v = float(int(v))
                        return {"k": "K", "ident": kind, "cv": [cc], "cat": cc, "argcats": []}, bits_of(v)
                    genes = [[c.sym_index(self.function_sym(c, p)), None, []]]
                    for j in range(n):
                        s, par = term(a if j == 0 else b if j == 1 else r.choice(vals))
                        genes.append([c.sym_index(s), par, []])
                        genes[0][2].append(len(genes) - 1)
                    c.genes = [tuple(g) for g in genes]
                    c.kinds = ["R"] * len(genes)
                    c.vectors = [[], []]      # no variable: two empty input vectors (an empty field would be dropped)
                    out.append(c)
        return out

    def lifecycle_cases(self, reps=6):
        """process history: consecutive tasks, each with its OWN symbol set (built, exported in the four
        formats, destroyed), that use different primitives of the same shape over the same terminals, so
        that the allocator hands the new function object the address of a dead one.  Run in one harness
        process, in this order, with address reuse enabled (no ASan quarantine / unsanitised build)."""
        out = []
        r = self.rng
        groups = {}
        for x in self.cat.functions("R", EXEC_FUNS):
            if x[0] != "real_length" and set(x[1]) == {"R"}:
                groups.setdefault(len(x[3]), []).append(x)
        for _ in range(reps):
            for n, fs in sorted(groups.items()):
                if len(fs) < 2:
                    continue
                seq = r.sample(fs, r.randint(min(4, len(fs)), min(8, len(fs))))
                for p in seq:
                    c = Case("lifecycle")
                    cc = c.cat("R")
                    genes = [[c.sym_index(self.function_sym(c, p)), None, []]]
                    for j in range(n):
                        genes.append([c.sym_index({"k": "V", "name": b"X%d" % (j + 1), "cat": cc}), None, []])
                        genes[0][2].append(len(genes) - 1)
                    c.genes = [tuple(g) for g in genes]
                    c.kinds = ["R"] * len(genes)
                    c.vectors = [[bits_of(v) for v in r.sample([0.5, 1.5, -2.25, 3.0, 7.0, 0.125, -1.0, 10.0], n)] for _ in range(2)]
                    out.append(c)
        return out

    def threshold_cases(self):
        """inputs exactly AT the constants the conditional templates compare with (and the adjacent doubles):
        the C text and the interpreter must take the same branch there too.  Variables, so that the values
        reach the comparison unrounded by printing."""
        out = []
        e2 = 0x3CC0000000000000          # 2 * DBL_EPSILON = 2^-51
        sign = 1 << 63
        one = bits_of(1.0)
        near = lambda b: [b - 1, b, b + 1]
        small = near(e2) + [x | sign for x in near(e2)] + [0, sign, 0x3CB0000000000000, 1, bits_of(1e-300)]
        specs = []
        for v in small:
            specs.append(("real_ifz", [v, bits_of(10.0), bits_of(20.0)]))
            specs.append(("real_ife", [v, 0, bits_of(10.0), bits_of(20.0)]))
            specs.append(("real_ife", [0, v, bits_of(10.0), bits_of(20.0)]))
        # 1 + 2eps, 1 + 4eps, ... against 1 (the difference is exactly 2eps, 4eps)
        for d in (1, 2, 3, 4, 8, 9, 16):
            specs.append(("real_ife", [one + d, one, bits_of(10.0), bits_of(20.0)]))
            specs.append(("real_ife", [one, one + d, bits_of(10.0), bits_of(20.0)]))
            specs.append(("real_ife", [bits_of(-1.0) + d, bits_of(-1.0), bits_of(10.0), bits_of(20.0)]))
        for a, b in [(1.0, 1.0), (0.0, -0.0), (-0.0, 0.0), (1.0, 2.0), (2.0, 1.0), (-1.0, -1.0)]:
            specs.append(("real_ifl", [bits_of(a), bits_of(b), bits_of(10.0), bits_of(20.0)]))
        specs.append(("real_ifl", [one, one + 1, bits_of(10.0), bits_of(20.0)]))
        specs.append(("real_ifl", [one + 1, one, bits_of(10.0), bits_of(20.0)]))
        for x, lo, hi in [(1.0, 1.0, 3.0), (3.0, 1.0, 3.0), (1.0, 3.0, 1.0), (3.0, 3.0, 1.0), (0.0, -0.0, 0.0),
                          (2.0, 2.0, 2.0), (0.5, 1.0, 3.0), (3.5, 1.0, 3.0)]:
            specs.append(("real_ifb", [bits_of(x), bits_of(lo), bits_of(hi), bits_of(10.0), bits_of(20.0)]))
        specs.append(("real_ifb", [one - 1, one, bits_of(3.0), bits_of(10.0), bits_of(20.0)]))
        specs.append(("real_ifb", [bits_of(3.0) + 1, one, bits_of(3.0), bits_of(10.0), bits_of(20.0)]))
        for v in [0, sign, 1, sign | 1, bits_of(4.0)]:
            specs.append(("real_sqrt", [v]))
        by = {}
        for ident, vec in specs:
            by.setdefault((ident, len(vec)), []).append(vec)
        for (ident, n), vecs in by.items():
            ps = [x for x in self.cat.functions("R") if x[0] == ident and set(x[1]) == {"R"}]
            if not ps:
                continue
            for i in range(0, len(vecs), 8):
                c = Case("threshold")
                cc = c.cat("R")
                genes = [[c.sym_index(self.function_sym(c, ps[0])), None, []]]
                for j in range(n):
                    genes.append([c.sym_index({"k": "V", "name": b"X%d" % (j + 1), "cat": cc}), None, []])
                    genes[0][2].append(len(genes) - 1)
                c.genes = [tuple(g) for g in genes]
                c.kinds = ["R"] * len(genes)
                c.vectors = vecs[i:i + 8]
                if len(c.vectors) == 1:
                    c.vectors = c.vectors * 2
                out.append(c)
        return out

    def pytable_cases(self):
        """the documented semantic differences between the Python templates and the interpreter (NOT part of
        the property, which speaks of the C text): one input on which they differ and one on which they
        agree, per template.  `expect` is checked and reported in the evidence, never an alarm."""
        spec = [
            ("real_mod", [-7.0, 3.0], "differs", "x % y has the sign of the divisor, fmod(x, y) the sign of the dividend"),
            ("real_mod", [7.0, 3.0], "agrees", "operands of the same sign"),
            ("real_idiv", [1.0, 0.1], "differs", "x // y is the floor of the EXACT quotient (9.0), floor(x / y) rounds first (10.0)"),
            ("real_idiv", [7.0, 2.0], "agrees", "exactly representable quotient"),
            ("real_ife", [1.0, 1.0000000001, 10.0, 20.0], "differs", "isclose: relative tolerance 1e-9; interpreter: |x - y| < 2 * DBL_EPSILON"),
            ("real_ife", [1.0, 1.0, 10.0, 20.0], "agrees", "equal operands"),
            ("real_ifz", [1e-12, 10.0, 20.0], "differs", "abs(x) < 1e-10; interpreter: |x| < 2 * DBL_EPSILON"),
            ("real_ifz", [0.0, 10.0, 20.0], "agrees", "zero"),
            ("real_ifb", [2.0, 3.0, 1.0, 10.0, 20.0], "differs", "b <= x <= c is false whenever b > c; the interpreter tests fmin(b, c) <= x <= fmax(b, c)"),
            ("real_ifb", [2.0, 1.0, 3.0, 10.0, 20.0], "agrees", "bounds in order"),
        ]
        out = []
        for ident, xs, expect, why in spec:
            p = [x for x in self.cat.functions("R") if x[0] == ident and set(x[1]) == {"R"}]
            if not p:
                continue
            c = Case("pytable")
            cc = c.cat("R")
            genes = [[c.sym_index(self.function_sym(c, p[0])), None, []]]
            for j in range(len(xs)):
                genes.append([c.sym_index({"k": "V", "name": b"X%d" % (j + 1), "cat": cc}), None, []])
                genes[0][2].append(len(genes) - 1)
            c.genes = [tuple(g) for g in genes]
            c.kinds = ["R"] * len(genes)
            c.vectors = [[bits_of(x) for x in xs], [bits_of(x) for x in xs]]
            c.expect = (ident, expect, why)
            out.append(c)
        return out

    def rowshare_cases(self, n, depth=4):
        """multi-category genomes whose active tree reaches the SAME ROW in two categories, with
        heavy sharing of sub-expressions"""
        out = []
        r = self.rng
        mixed = [x for x in self.cat.functions() if len(set(x[1])) > 1 or x[0] in ("real_length", "string_ife")]
        tries = 0
        while len(out) < n and tries < 20 * n:
            tries += 1
            c = Case("rowshare")
            root = r.choice(mixed)
            self.grow(c, root_inst=root, root_kind=root[2], depth=r.randint(1, depth), share=r.choice([0.15, 0.4, 0.7]))
            c.compact_rows()
            if c.shares_rows() and c.tree_size() <= 250:
                out.append(c)
        return out

    def random_cases(self, n, depth=4):
        out = []
        for _ in range(n):
            c = Case("random")
            self.grow(c, root_kind=self.rng.choice(["R", "R", "R", "S", "B"]), depth=self.rng.randint(1, depth))
            out.append(c)
        return out

    def exec_cases(self, n, depth=4):
        out = []
        r = self.rng
        pool = exact_consts() + [0.1, -2.75, 1e-3, 33.0]
        for k in range(n):
            c = Case("exec")
            fs = self.cat.functions("R", EXEC_FUNS)
            self.grow(c, root_inst=fs[k % len(fs)] if k < 2 * len(fs) else None, root_kind="R",
                      depth=r.randint(1, depth), exec_leg=True)
            nv = len([s for s in c.syms if s["k"] == "V"])
            c.vectors = [[bits_of(r.choice(pool)) for _ in range(nv)] for _ in range(4)]
            if k % 2:
                c.compact_rows()
            out.append(c)
        return out

    def user_cases(self, n):
        """functions and terminals that use the base-class display"""
        out = []
        r = self.rng
        for _ in range(n):
            c = Case("user")
            c.typed = False
            c.catmap = {"R": 0}
            ar = r.randint(1, 12) if r.random() < 0.3 else r.randint(1, 4)
            f = {"k": "U", "name": r.choice([b"FOO", b"G2", b"pow3", b"F"]), "cat": 0, "argcats": [0] * ar}
            genes = [[c.sym_index(f), None, []]]
            for _ in range(ar):
                k = r.random()
                if k < 0.2:
                    s, par = {"k": "T", "name": r.choice([b"K1", b"EPS"]), "cat": 0, "param": True}, bits_of(self.rand_double())
                elif k < 0.3:
                    s, par = {"k": "T", "name": r.choice([b"PI", b"E"]), "cat": 0, "param": False}, None
                else:
                    s, par = self.terminal(c, "R")
                genes.append([c.sym_index(s), par, []])
                genes[0][2].append(len(genes) - 1)
            c.genes = [tuple(g) for g in genes]
            c.kinds = ["R"] * len(genes)
            out.append(c)
        return out

    def quote_cases(self):
        """KNOWN FINDING string-literal:unescaped-quote -- constant<std::string>::display does not
        escape: a string constant containing a double quote or a backslash is not a literal"""
        out = []
        for sv in [b'a"b', b'"', b'x\\']:
            for with_len in (False, True):
                c = Case("quote")
                c.known_key = "string-literal:unescaped-quote"
                c.typed = True
                q = {"k": "Q", "s": sv, "cat": None}
                if with_len:
                    c.catmap = {"R": 0, "S": 1}
                    q["cat"] = 1
                    f = {"k": "K", "ident": "real_length", "cv": [1, 0], "cat": 0, "argcats": [1]}
                    c.genes = [(c.sym_index(f), None, [1]), (c.sym_index(q), None, [])]
                    c.kinds = ["R", "S"]
                else:
                    c.catmap = {"S": 0}
                    q["cat"] = 0
                    c.genes = [(c.sym_index(q), None, [])]
                    c.kinds = ["S"]
                out.append(c)
        return out

    def malformed_cases(self):
        """terminals whose text contains a placeholder: render is NOT the
        simultaneous instantiation there (stated hypothesis of the theorem);
        model and implementation must still agree byte for byte"""
        out = []
        for name, strs in [(b"%%2%%", None), (b"%%1%%", None), (b"A%%3%%B", None), (b"P%", None), (None, b"%%2%%"), (None, b"x%%")]:
            for pid in ["real_add", "real_ifl", "real_sub"]:
                c = Case("malformed")
                c.wellformed = False
                c.typed = False
                c.catmap = {"R": 0}
                info = self.cat.infos[pid]
                n = max([info["cat_ix"]] + info["arg_ix"]) + 1
                p = {"k": "K", "ident": pid, "cv": [0] * n, "cat": 0, "argcats": [0] * info["arity"]}
                genes = [[c.sym_index(p), None, []]]
                for a in range(info["arity"]):
                    if a == 0:
                        s = {"k": "V", "name": name, "cat": 0} if name is not None else {"k": "Q", "s": strs, "cat": 0}
                    else:
                        s = {"k": "V", "name": b"Y%d" % a, "cat": 0}
                    genes.append([c.sym_index(s), None, []])
                    genes[0][2].append(len(genes) - 1)
                c.genes = [tuple(g) for g in genes]
                c.kinds = ["R"] * len(genes)
                out.append(c)
        # a root whose NAME has the shape (a)+(b): the naive outer-parenthesis strip of language() removes
        # two parentheses that do not match (Refuted_C19.v: C19_naive_strip_refuted); names are not expressions,
        # so this is outside the property -- model and implementation must agree on the bytes
        for nm in [b"(a)+(b)", b"(x)", b"()", b"(", b"(a)(b)"]:
            c = Case("malformed")
            c.wellformed = False
            c.typed = False
            c.catmap = {"R": 0}
            c.genes = [(c.sym_index({"k": "V", "name": nm, "cat": 0}), None, [])]
            c.kinds = ["R"]
            out.append(c)
        for sv in [b"%%1%%", b"%%2%%", b"a%%3%%b", b"%%1%%%%2%%", b"%%", b"x%%", b"%%4%%"]:
            for p in self.cat.functions():
                if "S" not in p[3] or p[0].startswith("int_"):
                    continue
                j = p[3].index("S")
                c = Case("malformed")
                c.wellformed = False
                c.typed = False
                self.grow(c, root_inst=p, root_kind=p[2], depth=0, force={(0, j): {"k": "Q", "s": sv}})
                out.append(c)
        return out


# ------------------------------------------------------------------ oracle
# An independent reading of the printed text: lexer + precedence parser for
# the C-like syntaxes (c, cpp, mql) and for Python.  Parentheses are erased by
# the parser, so the result is the expression the text DENOTES.
TOK_RE = re.compile(r"""
    (?P<ws>[ \t]+)
  | (?P<hole>%%\d+%%)
  | (?P<num>(\d+\.\d*|\.\d+|\d+)([eE][-+]?\d+)?)
  | (?P<id>[A-Za-z_][A-Za-z0-9_]*(::[A-Za-z_][A-Za-z0-9_]*(<[A-Za-z_]+>)?)*)
  | (?P<str>"([^"\\\n]|\\.)*")
  | (?P<op>&&|\|\||<=|>=|==|!=|//|\+\+|--|[-+*/%<>!?:(),.])
""", re.X)

PY_KEYWORDS = {"if", "else", "and", "or", "not"}


class ParseError(Exception):
    pass


def lex(text, fmt):
    toks = []
    pos = 0
    while pos < len(text):
        m = TOK_RE.match(text, pos)
        if not m:
            raise ParseError("cannot tokenize at %r" % text[pos:pos + 20])
        pos = m.end()
        k = m.lastgroup
        v = m.group(k)
        if k == "ws":
            continue
        if k == "id" and fmt == "py" and v in PY_KEYWORDS:
            k = "op"
        if k == "num" and toks and toks[-1][0] in ("num", "id", "str", "hole"):
            raise ParseError("token %r glued to %r" % (v, toks[-1][1]))
        if k == "id" and toks and toks[-1][0] in ("num", "str"):
            raise ParseError("token %r glued to %r" % (v, toks[-1][1]))
        if k == "op" and v in ("++", "--"):
            if fmt == "py":            # Python has no such operator: two signs
                toks.append(("op", v[0]))
                toks.append(("op", v[0]))
                continue
            raise ParseError("operator %s (two signs glued)" % v)
        toks.append((k, v))
    return toks


C_BIN = {",": 1, "||": 3, "&&": 4, "==": 7, "!=": 7, "<": 8, ">": 8, "<=": 8, ">=": 8,
         "+": 10, "-": 10, "*": 11, "/": 11, "%": 11}
C_UN = {"!": 13, "-": 13, "+": 13}
C_COND = 2
PY_BIN = {",": 1, "or": 3, "and": 4, "==": 6, "!=": 6, "<": 6, ">": 6, "<=": 6, ">=": 6,
          "+": 10, "-": 10, "*": 11, "/": 11, "//": 11, "%": 11}
PY_UN = {"not": 5, "-": 12, "+": 12}
PY_COND = 2


class Parser:
    def __init__(self, toks, fmt):
        self.t = toks
        self.i = 0
        self.py = fmt == "py"
        self.bin = PY_BIN if self.py else C_BIN
        self.un = PY_UN if self.py else C_UN

    def peek(self):
        return self.t[self.i] if self.i < len(self.t) else (None, None)

    def next(self):
        t = self.peek()
        self.i += 1
        return t

    def expect(self, v):
        k, x = self.next()
        if k != "op" or x != v:
            raise ParseError("expected %r, found %r" % (v, x))

    def primary(self, minp=0):
        k, v = self.next()
        if k in ("num", "id", "str"):
            e = (k, v)
        elif k == "hole":
            e = ("hole", int(v[2:-2]))
        elif k == "op" and v == "(" and not self.py and self.peek() == ("id", "double") \
                and self.i + 1 < len(self.t) and self.t[self.i + 1] == ("op", ")"):
            self.i += 2
            if 13 < minp:
                raise ParseError("cast as operand of a postfix operator")
            return ("un", "(double)", self.expr(13))
        elif k == "op" and v == "(":
            e = self.expr(0)
            self.expect(")")
        elif k == "op" and v in self.un:
            p = self.un[v]
            if p < minp:
                raise ParseError("prefix operator %r as operand of a tighter-binding operator" % v)
            return ("un", v, self.expr(p))      # no postfix on the result of a prefix operator
        else:
            raise ParseError("unexpected %r" % (v,))
        while True:
            k, v = self.peek()
            if k == "op" and v == "(":
                self.next()
                if self.peek() == ("op", ")"):
                    self.next()
                    e = ("call", e, [])
                else:
                    a = self.expr(0)
                    self.expect(")")
                    args = []
                    while a[0] == "bin" and a[1] == ",":
                        args.insert(0, a[3])
                        a = a[2]
                    args.insert(0, a)
                    e = ("call", e, args)
            elif k == "op" and v == ".":
                self.next()
                k2, v2 = self.next()
                if k2 != "id":
                    raise ParseError("member name expected")
                e = ("mem", e, v2)
            else:
                return e

    def expr(self, minp):
        lhs = self.primary(minp)
        chain = False          # lhs is a comparison chain built by THIS loop (not a parenthesised one)
        while True:
            k, v = self.peek()
            if k != "op":
                if k is None:
                    return lhs
                raise ParseError("operator expected before %r" % (v,))
            if v in self.bin and self.bin[v] >= minp:
                p = self.bin[v]
                self.next()
                rhs = self.expr(p + 1)
                if self.py and p == 6 and chain:
                    lhs = ("cmp", lhs[1] + [v], lhs[2] + [rhs])       # a <= b <= c is ONE chained comparison
                elif self.py and p == 6:
                    lhs = ("cmp", [v], [lhs, rhs])
                    chain = True
                else:
                    lhs = ("bin", v, lhs, rhs)
                    chain = False
            elif not self.py and v == "?" and C_COND >= minp:
                self.next()
                a = self.expr(0)
                self.expect(":")
                b = self.expr(C_COND)
                lhs = ("cond", lhs, a, b)
            elif self.py and v == "if" and PY_COND >= minp:
                self.next()
                c = self.expr(PY_COND + 1)
                self.expect("else")
                b = self.expr(PY_COND)
                lhs = ("cond", c, lhs, b)
            else:
                return lhs


def parse_text(text, fmt):
    p = Parser(lex(text, fmt), fmt)
    e = p.expr(0)
    if p.i != len(p.t):
        raise ParseError("trailing tokens from %r" % (p.peek()[1],))
    return e


def subst(e, kids):
    if e[0] == "hole":
        if e[1] - 1 >= len(kids):
            raise ParseError("placeholder %d of a %d-ary function" % (e[1], len(kids)))
        return kids[e[1] - 1]
    if e[0] in ("num", "id", "str"):
        return e
    if e[0] == "call":
        return ("call", subst(e[1], kids), [subst(a, kids) for a in e[2]])
    if e[0] == "mem":
        return ("mem", subst(e[1], kids), e[2])
    if e[0] == "un":
        return ("un", e[1], subst(e[2], kids))
    if e[0] == "bin":
        return ("bin", e[1], subst(e[2], kids), subst(e[3], kids))
    if e[0] == "cmp":
        return ("cmp", e[1], [subst(a, kids) for a in e[2]])
    if e[0] == "cond":
        return ("cond", subst(e[1], kids), subst(e[2], kids), subst(e[3], kids))
    raise ParseError("bad node")


def fmt_f(x):
    return "%f" % x


def pieces_text(pieces, par):
    out = ""
    for p in pieces:
        if p[0] == "lit":
            out += p[1].decode("latin-1")
        elif p[0] == "to_string_param":
            out += fmt_f(dbl_of(par))
        elif p[0] == "to_string_param_trim":
            t = fmt_f(dbl_of(par))
            t = t.rstrip("0") if t.rstrip("0") else t
            out += t[:-1] if t.endswith(".") else t
        else:
            out += str(int(dbl_of(par)))
    return out


def terminal_text(case, s, par, fmt, catalog):
    k = s["k"]
    if k == "D":
        return fmt_f(dbl_of(s["bits"]))
    if k == "I":
        return str(s["v"])
    if k == "Q":
        v = s["s"].decode("latin-1")
        if getattr(catalog, "escapes", False):
            v = v.replace(chr(92), chr(92) * 2).replace('"', chr(92) + '"')
        return '"' + v + '"'
    if k == "V":
        return s["name"].decode("latin-1")
    if k == "T":
        return s["name"].decode("latin-1") + ("_" + fmt_f(dbl_of(par)) if s["param"] else "")
    d = catalog.template(s["ident"], fmt)
    if d[0] == "text":
        return pieces_text(d[1], par)
    info = catalog.infos[s["ident"]]
    return info["name"] + ("_" + fmt_f(dbl_of(par)) if info["parametric"] else "")


def function_template(s, fmt, catalog):
    if s["k"] == "U":
        n = len(s["argcats"])
        return s["name"].decode("latin-1") + "(" + ",".join("%%%%%d%%%%" % (i + 1) for i in range(n)) + ")"
    d = catalog.template(s["ident"], fmt)
    if d[0] == "text":
        return pieces_text(d[1], None)
    info = catalog.infos[s["ident"]]
    return info["name"] + "(" + ",".join("%%%%%d%%%%" % (i + 1) for i in range(info["arity"])) + ")"


def expected_ast(case, fmt, catalog):
    """the expression the program denotes: each function node is its template
    (parsed with the format's precedences) with every placeholder replaced by
    the complete sub-expression of the corresponding argument"""
    memo = {}

    def go(row, depth=0):
        if row in memo:
            return memo[row]
        if depth > 200:
            raise ParseError("cyclic genome")
        si, par, args = case.genes[row]
        s = case.syms[si]
        if not args and not (s["k"] == "U" or (s["k"] == "K" and catalog.infos[s["ident"]]["arity"] > 0)):
            e = parse_text(terminal_text(case, s, par, fmt, catalog), fmt)
        else:
            t = parse_text(function_template(s, fmt, catalog), fmt)
            e = subst(t, [go(a, depth + 1) for a in args])
        memo[row] = e
        return e
    return go(0)


NUM_INT_RE = re.compile(r"^\(?-?\d+\)?$")


def norm_ast(e, fmt):
    """numeric literals compared by value and, in the C-like languages, by kind (7 is an int, 7.0 a
    double: `7/2` is not `7.0/2.0`); their spelling (2.5 vs 2.500000) does not matter"""
    k = e[0]
    if k == "num":
        try:
            v = float(e[1])
        except ValueError:
            return e
        floating = any(ch in e[1] for ch in ".eE")
        return ("num", v, floating if fmt != "py" else True)
    if k in ("id", "str", "hole"):
        return e
    if k == "call":
        return ("call", norm_ast(e[1], fmt), [norm_ast(a, fmt) for a in e[2]])
    if k == "mem":
        return ("mem", norm_ast(e[1], fmt), e[2])
    if k == "un":
        return ("un", e[1], norm_ast(e[2], fmt))
    if k == "bin":
        return ("bin", e[1], norm_ast(e[2], fmt), norm_ast(e[3], fmt))
    if k == "cmp":
        return ("cmp", e[1], [norm_ast(a, fmt) for a in e[2]])
    if k == "cond":
        return ("cond", norm_ast(e[1], fmt), norm_ast(e[2], fmt), norm_ast(e[3], fmt))
    return e


REAL_TERMINALS = ("real_real", "real_integer")


def integer_literals_for_reals(case, fmt, catalog):
    """texts of real-valued constants (REAL ephemerals, constant<double>) reached by the active tree that
    are INTEGER literals of the C grammar: the exported C / C++ / MQL expression then computes with ints"""
    bad = []
    seen = set()

    def walk(i):
        if i in seen:
            return
        seen.add(i)
        si, par, args = case.genes[i]
        s = case.syms[si]
        if (s["k"] == "K" and s["ident"] in REAL_TERMINALS) or s["k"] == "D":
            t = terminal_text(case, s, par, fmt, catalog)
            if NUM_INT_RE.match(t):
                bad.append(t)
        for a in args:
            walk(a)
    walk(0)
    return bad


def align_ids(a, b, table):
    """walk two expressions of the same shape; identifiers may differ (recorded in `table`, consistently),
    numbers are compared by value; False when the shapes differ"""
    if a[0] != b[0]:
        return False
    k = a[0]
    if k == "id":
        if a[1] != b[1]:
            if table.setdefault(a[1], b[1]) != b[1]:
                return False
        return True
    if k == "num":
        try:
            return float(a[1]) == float(b[1])
        except ValueError:
            return a[1] == b[1]
    if k in ("str", "hole"):
        return a[1] == b[1]
    if k == "call":
        return align_ids(a[1], b[1], table) and len(a[2]) == len(b[2]) and all(align_ids(x, y, table) for x, y in zip(a[2], b[2]))
    if k == "mem":
        return a[2] == b[2] and align_ids(a[1], b[1], table)
    if k == "un":
        return a[1] == b[1] and align_ids(a[2], b[2], table)
    if k == "bin":
        return a[1] == b[1] and align_ids(a[2], b[2], table) and align_ids(a[3], b[3], table)
    if k == "cond":
        return all(align_ids(x, y, table) for x, y in zip(a[1:], b[1:]))
    return False


def mql_name_table(catalog):
    """function-name table C -> MQL regenerated from the templates, and the classes whose MQL template is
    not the C template modulo names (NormalizeDouble(x, 8) == 0 instead of fabs(x) < 2 * DBL_EPSILON ...)"""
    table, different = {}, []
    for ident in catalog.order:
        info = catalog.infos[ident]
        if info["arity"] == 0:
            continue
        dc, dm = info["disp"][0], info["disp"][2]
        if dc[0] != "text" or dm[0] != "text":
            continue
        try:
            a = parse_text(pieces_text(dc[1], None), "c")
            b = parse_text(pieces_text(dm[1], None), "mql")
        except ParseError:
            different.append(ident)
            continue
        t = dict(table)
        if align_ids(a, b, t):
            table = t
        else:
            different.append(ident)
    return table, different


def rename_ids(e, table):
    k = e[0]
    if k == "id":
        return ("id", table.get(e[1], e[1]))
    if k in ("num", "str", "hole"):
        return e
    if k == "call":
        return ("call", rename_ids(e[1], table), [rename_ids(x, table) for x in e[2]])
    if k == "mem":
        return ("mem", rename_ids(e[1], table), e[2])
    if k == "un":
        return ("un", e[1], rename_ids(e[2], table))
    if k == "bin":
        return ("bin", e[1], rename_ids(e[2], table), rename_ids(e[3], table))
    if k == "cond":
        return ("cond",) + tuple(rename_ids(x, table) for x in e[1:])
    return e


def show_ast(e):
    if e[0] in ("num", "id", "str"):
        return e[1]
    if e[0] == "hole":
        return "%%%d%%" % e[1]
    if e[0] == "call":
        return show_ast(e[1]) + "[" + ", ".join(show_ast(a) for a in e[2]) + "]"
    if e[0] == "mem":
        return "{" + show_ast(e[1]) + "}." + e[2]
    if e[0] == "un":
        return "{" + e[1] + " " + show_ast(e[2]) + "}"
    if e[0] == "bin":
        return "{" + show_ast(e[2]) + " " + e[1] + " " + show_ast(e[3]) + "}"
    if e[0] == "cmp":
        out = show_ast(e[2][0])
        for o, a in zip(e[1], e[2][1:]):
            out += " " + o + " " + show_ast(a)
        return "{" + out + "}"
    if e[0] == "cond":
        return "{" + show_ast(e[1]) + " ? " + show_ast(e[2]) + " : " + show_ast(e[3]) + "}"
    return "?"


# ----------------------------------------------------------- C / C++ wrappers
C_PRELUDE = """#include <math.h>
#include <string.h>
#include <float.h>
double ADD(); double DIV(); double IFE(); double IFL(); double IFZ(); double MOD(); double MUL(); double SHL(); double SUB();
"""
CPP_PRELUDE = """#include <cmath>
#include <string>
#include <limits>
#include <cstring>
template<class... A> double ADD(A...); template<class... A> double DIV(A...); template<class... A> double IFE(A...);
template<class... A> double IFL(A...); template<class... A> double IFZ(A...); template<class... A> double MOD(A...);
template<class... A> double MUL(A...); template<class... A> double SHL(A...); template<class... A> double SUB(A...);
"""
CTYPE = {"R": "double", "S": "const char *", "B": "int"}


def c_function(case, k, text, cpp=False):
    """one line: the printed expression wrapped in a function"""
    params = []
    seen = set()
    inv = {v: kk for kk, v in case.catmap.items()}
    for s in case.syms:
        if s["k"] == "V" and s["name"] not in seen:
            seen.add(s["name"])
            params.append("%s %s" % (CTYPE[inv.get(s["cat"], "R")], s["name"].decode("latin-1")))
    ret = CTYPE[case.kinds[0]]
    if cpp and ret == "const char *":
        ret = "std::string"
    return "%s f%d(%s) { return %s; }" % (ret, k, ", ".join(params) if params else "void", text)
