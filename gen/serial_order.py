"""Translator for C11/C12: the ORDER of the fields each save()/load() pair
streams, read off the C++ source (sequence of `out << x` / `in >> x` operands per
function), emitted as coq/Gen/SerialOrder.v.  The model's declared orders are
proved equal to these (coq/Serial/OrderProofs.v), and the numeric tail of
summary<T> is printed/parsed by the model in the generated order.

generate(snapshot_dir) -> (problems, text).  A function that cannot be located
or an operand outside the vocabulary is reported as a problem (the caller then
keeps the checked-in file: tie = correspondence only for the order)."""
import os
import re

# (class tag, file, regex of the signature, 'save'|'load', {operand regex: field tag or None to skip})
SPEC = [
    ("hash", "kernel/cache_hash.cc", r"bool\s+hash_t::save\s*\(", "save",
     [(r"data\[0\]", "d0"), (r"data\[1\]", "d1")]),
    ("hash", "kernel/cache_hash.cc", r"bool\s+hash_t::load\s*\(", "load",
     [(r"tmp\.data\[0\]|data\[0\]", "d0"), (r"tmp\.data\[1\]|data\[1\]", "d1")]),
    ("individual", "kernel/individual.tcc", r"bool\s+individual<Derived>::save\s*\(", "save", [(r"age\(\)", "age")]),
    ("individual", "kernel/individual.tcc", r"bool\s+individual<Derived>::load\s*\(", "load", [(r"t_age|age_", "age")]),
    ("mep", "kernel/gp/mep/i_mep.cc", r"bool\s+i_mep::save_impl\s*\(", "save",
     [(r"genome_\.rows\(\)", "rows"), (r"genome_\.cols\(\)", "cols"), (r"g\.sym->opcode\(\)", "opcode"),
      (r"g\.args\[i\]", "arg"), (r"best\(\)\.index", "best_index"), (r"best\(\)\.category", "best_category"),
      (r"g\.par", None)]),
    ("mep", "kernel/gp/mep/i_mep.cc", r"bool\s+i_mep::load_impl\s*\(", "load",
     [(r"rows", "rows"), (r"cols", "cols"), (r"opcode", "opcode"), (r"arg", "arg"),
      (r"best\.index|best_\.index", "best_index"), (r"best\.category|best_\.category", "best_category"),
      (r"temp\.par", None)]),
    ("vec", "kernel/ga/i_ga.cc", r"bool\s+i_ga::save_impl\s*\(", "save", [(r"parameters\(\)", "size"), (r"g", "elem")]),
    ("vec", "kernel/ga/i_ga.cc", r"bool\s+i_ga::load_impl\s*\(", "load", [(r"sz", "size"), (r"g", "elem")]),
    ("team", "kernel/gp/team.tcc", r"bool\s+team<T>::save\s*\(", "save", [(r"individuals\(\)", "size")]),
    ("team", "kernel/gp/team.tcc", r"bool\s+team<T>::load\s*\(", "load", [(r"n", "size")]),
    ("population", "kernel/population.tcc", r"bool\s+population<T>::save\s*\(", "save",
     [(r"n", "layers"), (r"allowed\(l\)", "allowed"), (r"individuals\(l\)", "count")]),
    ("population", "kernel/population.tcc", r"bool\s+population<T>::load\s*\(", "load",
     [(r"n_layers", "layers"), (r"n_allowed|p\.allowed_\[l\]|allowed_\[l\]", "allowed"), (r"n_elem", "count")]),
    ("summary", "kernel/evolution_summary.tcc", r"bool\s+summary<T>::save\s*\(", "save",
     [(r"elapsed\.count\(\)", "elapsed"), (r"mutations", "mutations"), (r"crossovers", "crossovers"),
      (r"gen", "gen"), (r"last_imp", "last_imp")]),
    ("summary", "kernel/evolution_summary.tcc", r"bool\s+summary<T>::load\s*\(", "load",
     [(r"known_best", None), (r"ms", "elapsed"), (r"(tmp_summary\.)?mutations", "mutations"),
      (r"(tmp_summary\.)?crossovers", "crossovers"), (r"(tmp_summary\.)?gen", "gen"),
      (r"(tmp_summary\.)?last_imp", "last_imp")]),
    ("distribution", "kernel/distribution.tcc", r"bool\s+distribution<T>::save\s*\(", "save",
     [(r"count\(\)", "count"), (r"mean\(\)", "mean"), (r"min\(\)", "min"), (r"max\(\)", "max"), (r"m2_", "m2"),
      (r"seen\(\)\.size\(\)", "nseen"), (r"elem\.first", "key"), (r"elem\.second", "val")]),
    ("distribution", "kernel/distribution.tcc", r"bool\s+distribution<T>::load\s*\(", "load",
     [(r"c|count_", "count"), (r"m|mean_", "mean"), (r"mn|min_", "min"), (r"mx|max_", "max"), (r"m2__|m2_", "m2"),
      (r"n", "nseen"), (r"key", "key"), (r"val", "val")]),
    ("matrix", "utility/matrix.tcc", r"bool\s+matrix<T>::save\s*\(", "save",
     [(r"cols\(\)", "cols"), (r"rows\(\)", "rows"), (r"e", "elem")]),
    ("matrix", "utility/matrix.tcc", r"bool\s+matrix<T>::load\s*\(", "load",
     [(r"cs|cols_", "cols"), (r"rs", "rows"), (r"e", "elem")]),
]


def strip_comments(txt):
    txt = re.sub(r"/\*.*?\*/", " ", txt, flags=re.S)
    return re.sub(r"//[^\n]*", " ", txt)


def body_of(txt, sig):
    m = re.search(sig, txt)
    if not m:
        return None
    i = txt.index("{", m.end())
    depth = 0
    for j in range(i, len(txt)):
        if txt[j] == "{":
            depth += 1
        elif txt[j] == "}":
            depth -= 1
            if depth == 0:
                return txt[i + 1:j]
    return None


def operands(body, kind):
    """ordered operands of the `out << ...` / `in >> ...` chains"""
    op = "<<" if kind == "save" else ">>"
    stream = "out" if kind == "save" else "in"
    out = []
    for stmt in re.split(r"[;{}]", body):
        m = re.search(r"\b%s\s*%s" % (stream, re.escape(op)), stmt)
        if not m:
            continue
        chain = stmt[m.end():]
        for part in chain.split(op):
            # cut at the parenthesis that closes an enclosing  if (!( ... ))  and at a logical operator
            depth, end = 0, len(part)
            for k, ch in enumerate(part):
                if ch == "(":
                    depth += 1
                elif ch == ")":
                    depth -= 1
                    if depth < 0:
                        end = k
                        break
            p = re.split(r"\|\||&&", part[:end])[0].strip()
            if not p or p.startswith("'") or p.startswith('"') or p.startswith("std::"):
                continue
            out.append(p)
    return out


def generate(snap):
    problems = []
    orders = {}
    for cls, rel, sig, kind, vocab in SPEC:
        path = os.path.join(snap, rel)
        try:
            txt = strip_comments(open(path).read())
        except OSError:
            problems.append("%s: cannot read %s" % (cls, rel))
            continue
        body = body_of(txt, sig)
        if body is None:
            problems.append("%s::%s not found in %s" % (cls, kind, rel))
            continue
        tags = []
        for o in operands(body, kind):
            for rx, tag in vocab:
                if re.fullmatch(rx, o):
                    if tag:
                        tags.append(tag)
                    break
            else:
                problems.append("%s::%s: operand `%s` outside the vocabulary" % (cls, kind, o))
        orders[(cls, kind)] = tags
    lines = ["(* GENERATED by gen/serial_order.py from the C++ sources (order of the `out << x` / `in >> x`",
             "   operands of each save()/load() pair).  Do not edit. *)",
             "From Coq Require Import List.", "From VV Require Import Serial.SerialTags.", "Import ListNotations.", ""]
    for (cls, kind), tags in sorted(orders.items()):
        lines.append("Definition %s_%s_order : list ftag := [%s]." % (cls, kind, "; ".join("T_%s" % t for t in tags)))
    return problems, "\n".join(lines) + "\n"


if __name__ == "__main__":
    import sys
    pr, tx = generate(sys.argv[1] if len(sys.argv) > 1 else "/repo/src")
    sys.stdout.write(tx)
    for p in pr:
        sys.stderr.write("PROBLEM " + p + "\n")
